"""E3 statement-level control-flow graph with exceptional edges.

Nodes are statements (for compound statements: the part that is evaluated
at the header).  `finally` bodies and `with` exits are duplicated per kind of
continuation (normal / exception / return / break / continue), so every path
in the graph is a syntactically feasible path of the function.

Edge labels: 'n' normal, 't'/'f' branch on a test, 'e' exceptional,
'loop' back edge of a loop, 'it' iteration of a for loop, 'done' exhaustion.
"""
from __future__ import annotations

import ast
from collections import deque
from dataclasses import dataclass, field
from typing import Callable, Dict, Iterable, List, Optional, Sequence, Set, Tuple

from .model import AnalysisError, norm, walk_local

PURE_LEAVES = (ast.Name, ast.Constant)


def _pure(e: Optional[ast.AST]) -> bool:
    if e is None:
        return True
    if isinstance(e, PURE_LEAVES):
        return True
    if isinstance(e, (ast.Tuple, ast.List)):
        return all(_pure(x) for x in e.elts)
    if isinstance(e, ast.UnaryOp) and isinstance(e.op, ast.Not):
        return _pure(e.operand)
    if isinstance(e, ast.Compare) and all(isinstance(o, (ast.Is, ast.IsNot)) for o in e.ops):
        return _pure(e.left) and all(_pure(c) for c in e.comparators)
    return False


def may_raise(kind: str, node: Optional[ast.AST]) -> bool:
    """Conservative 'this CFG node can raise' predicate."""
    if node is None:
        return False
    if kind in ("with_exit",):
        return True
    if isinstance(node, (ast.Pass, ast.Break, ast.Continue, ast.Global,
                         ast.Nonlocal, ast.FunctionDef, ast.AsyncFunctionDef,
                         ast.ClassDef)):
        return False
    if isinstance(node, ast.Expr):
        return not isinstance(node.value, ast.Constant)
    if isinstance(node, ast.Assign):
        simple_targets = all(isinstance(t, ast.Name) or
                             (isinstance(t, ast.Tuple) and False) for t in node.targets)
        return not (simple_targets and _pure(node.value))
    if isinstance(node, ast.Return):
        return not _pure(node.value)
    if isinstance(node, ast.expr):
        return not _pure(node)
    return True


@dataclass
class Node:
    id: int
    kind: str                 # entry exit raise stmt test iter with_enter with_exit handler join
    ast: Optional[ast.AST]    # what is evaluated here
    stmt: Optional[ast.stmt]  # owning statement
    label: str = ""
    copy_of: str = ""         # non-empty for duplicated finally/with-exit code

    @property
    def lineno(self) -> int:
        n = self.ast if self.ast is not None else self.stmt
        if isinstance(n, ast.withitem):
            n = n.context_expr
        return getattr(n, "lineno", 0)

    def exprs(self) -> List[ast.AST]:
        """The AST fragments that are evaluated when control is at this node."""
        n = self.ast
        if n is None or self.kind in ("with_exit", "entry", "exit", "raise", "join"):
            return []
        if self.kind == "iter":
            return [n.iter, n.target]
        if self.kind == "with_enter":
            return [n.context_expr] + ([n.optional_vars] if n.optional_vars is not None else [])
        if isinstance(n, (ast.FunctionDef, ast.AsyncFunctionDef)):
            a = n.args
            return list(n.decorator_list) + list(a.defaults) + \
                [d for d in a.kw_defaults if d is not None]
        if isinstance(n, ast.ClassDef):
            return list(n.decorator_list) + list(n.bases)
        return [n]

    def walk(self):
        """All AST nodes evaluated at this CFG node (nested function bodies,
        lambdas and class bodies excluded)."""
        for e in self.exprs():
            yield from walk_local(e)

    def calls(self) -> List[ast.Call]:
        return [x for x in self.walk() if isinstance(x, ast.Call)]

    def text(self) -> str:
        if self.kind in ("entry", "exit", "raise", "join"):
            return f"<{self.kind}{(' ' + self.label) if self.label else ''}>"
        if self.kind == "iter":
            t = f"for {norm(self.ast.target)} in {norm(self.ast.iter)}"
        elif self.kind in ("with_enter",):
            t = norm(self.ast.context_expr)
        else:
            t = norm(self.ast).split("\n")[0] if self.ast is not None else ""
        return f"{self.kind}: {t[:80]}"


class _Frame:
    def __init__(self, type_, **kw):
        self.type = type_
        self.copies: Dict[Tuple, int] = {}
        self.__dict__.update(kw)


class CFG:
    def __init__(self, func: ast.AST, body: Optional[List[ast.stmt]] = None,
                 exc_edges: bool = True):
        self.func = func
        self.exc_edges = exc_edges
        self.nodes: List[Node] = []
        self.succ: Dict[int, List[Tuple[int, str]]] = {}
        self.pred: Dict[int, List[Tuple[int, str]]] = {}
        self.entry = self._new("entry", None, None)
        self.exit = self._new("exit", None, None)
        self.raise_exit = self._new("raise", None, None)
        if body is None:
            body = func.body if not isinstance(func, ast.Lambda) else \
                [ast.Return(value=func.body, lineno=func.lineno, col_offset=0)]
        ends = self._seq(body, [(self.entry, "n")], ())
        for (p, lab) in ends:
            self._edge(p, self.exit, lab)

    # ------------------------------------------------------------ plumbing
    def _new(self, kind, node, stmt, label="", copy_of="") -> int:
        n = Node(len(self.nodes), kind, node, stmt, label, copy_of)
        self.nodes.append(n)
        self.succ[n.id] = []
        self.pred[n.id] = []
        return n.id

    def _edge(self, a: int, b: int, label: str = "n") -> None:
        if (b, label) not in self.succ[a]:
            self.succ[a].append((b, label))
            self.pred[b].append((a, label))

    def _link(self, preds, nid):
        for (p, lab) in preds:
            self._edge(p, nid, lab)

    def _raise_from(self, nid: int, frames) -> None:
        if not self.exc_edges:
            return
        n = self.nodes[nid]
        if may_raise(n.kind, n.ast):
            self._edge(nid, self._route("raise", frames), "e")

    # -------------------------------------------------- abrupt-exit routing
    def _route(self, kind: str, frames: Tuple[_Frame, ...]) -> int:
        for i in reversed(range(len(frames))):
            f = frames[i]
            outer = frames[:i]
            if f.type == "finally":
                key = (kind,)
                if key not in f.copies:
                    j = self._new("join", None, f.stmt, f"finally[{kind}]")
                    f.copies[key] = j
                    ends = self._seq(f.body, [(j, "n")], outer,
                                     copy_of=f"finally[{kind}]")
                    tgt = self._route(kind, outer)
                    for (p, lab) in ends:
                        self._edge(p, tgt, lab)
                return f.copies[key]
            if f.type == "with":
                key = (kind,)
                if key not in f.copies:
                    x = self._new("with_exit", f.item.context_expr, f.stmt,
                                  copy_of=f"with_exit[{kind}]")
                    f.copies[key] = x
                    self._edge(x, self._route(kind, outer), "n")
                    if kind != "raise":
                        self._raise_from(x, outer)
                return f.copies[key]
            if f.type == "loop" and kind in ("break", "continue"):
                return f.brk if kind == "break" else f.cont
            if f.type == "try" and kind == "raise":
                return f.dispatch
        if kind == "return":
            return self.exit
        if kind == "raise":
            return self.raise_exit
        raise AnalysisError(f"'{kind}' outside loop in CFG construction")

    # --------------------------------------------------------- statements
    def _seq(self, stmts: Sequence[ast.stmt], preds, frames, copy_of=""):
        for st in stmts:
            preds = self._stmt(st, preds, frames, copy_of)
        return preds

    def _simple(self, st, preds, frames, copy_of, kind="stmt", node=None):
        nid = self._new(kind, node if node is not None else st, st, copy_of=copy_of)
        self._link(preds, nid)
        self._raise_from(nid, frames)
        return nid

    def _stmt(self, st: ast.stmt, preds, frames, copy_of):
        if isinstance(st, (ast.Assign, ast.AugAssign, ast.AnnAssign, ast.Expr,
                           ast.Pass, ast.Import, ast.ImportFrom, ast.Global,
                           ast.Nonlocal, ast.Delete, ast.FunctionDef,
                           ast.AsyncFunctionDef, ast.ClassDef)):
            nid = self._simple(st, preds, frames, copy_of)
            return [(nid, "n")]
        if isinstance(st, ast.Assert):
            nid = self._simple(st, preds, frames, copy_of)
            return [(nid, "n")]
        if isinstance(st, ast.Return):
            nid = self._simple(st, preds, frames, copy_of)
            self._edge(nid, self._route("return", frames), "n")
            return []
        if isinstance(st, ast.Raise):
            nid = self._new("stmt", st, st, copy_of=copy_of)
            self._link(preds, nid)
            # a raise always leaves through the exceptional route, also when
            # exc_edges is off (it is explicit control flow)
            self._edge(nid, self._route("raise", frames), "e")
            return []
        if isinstance(st, ast.Break):
            nid = self._simple(st, preds, frames, copy_of)
            self._edge(nid, self._route("break", frames), "n")
            return []
        if isinstance(st, ast.Continue):
            nid = self._simple(st, preds, frames, copy_of)
            self._edge(nid, self._route("continue", frames), "n")
            return []
        if isinstance(st, ast.If):
            # `if not c: A else: B` is built as `if c: B else: A`: the test node holds the
            # positive condition and the labels swap, so path rules see one form only
            test, lt, lf = st.test, "t", "f"
            while isinstance(test, ast.UnaryOp) and isinstance(test.op, ast.Not):
                test, lt, lf = test.operand, lf, lt
            t = self._simple(st, preds, frames, copy_of, "test", test)
            a = self._seq(st.body, [(t, lt)], frames, copy_of)
            b = self._seq(st.orelse, [(t, lf)], frames, copy_of) if st.orelse \
                else [(t, lf)]
            return a + b
        if isinstance(st, ast.While):
            t = self._simple(st, preds, frames, copy_of, "test", st.test)
            brk = self._new("join", None, st, "after-while")
            fr = _Frame("loop", brk=brk, cont=t)
            body_ends = self._seq(st.body, [(t, "t")], frames + (fr,), copy_of)
            for (p, lab) in body_ends:
                self._edge(p, t, "loop" if lab == "n" else lab)
            const_true = isinstance(st.test, ast.Constant) and bool(st.test.value)
            out = [] if const_true else [(t, "f")]
            if st.orelse:
                out = self._seq(st.orelse, out, frames, copy_of)
            for (p, lab) in out:
                self._edge(p, brk, lab)
            return [(brk, "n")] if self.pred[brk] else []
        if isinstance(st, (ast.For, ast.AsyncFor)):
            it = self._simple(st, preds, frames, copy_of, "iter", st)
            brk = self._new("join", None, st, "after-for")
            fr = _Frame("loop", brk=brk, cont=it)
            body_ends = self._seq(st.body, [(it, "it")], frames + (fr,), copy_of)
            for (p, lab) in body_ends:
                self._edge(p, it, "loop" if lab == "n" else lab)
            out = [(it, "done")]
            if st.orelse:
                out = self._seq(st.orelse, out, frames, copy_of)
            for (p, lab) in out:
                self._edge(p, brk, lab)
            return [(brk, "n")]
        if isinstance(st, (ast.With, ast.AsyncWith)):
            cur = preds
            fr_stack = frames
            items = []
            for item in st.items:
                e = self._simple(st, cur, fr_stack, copy_of, "with_enter", item)
                fr = _Frame("with", item=item, stmt=st)
                fr_stack = fr_stack + (fr,)
                items.append(fr)
                cur = [(e, "n")]
            ends = self._seq(st.body, cur, fr_stack, copy_of)
            # normal exit: unwind the items innermost first
            for k in reversed(range(len(items))):
                outer = frames + tuple(items[:k])
                x = self._new("with_exit", items[k].item.context_expr, st,
                              copy_of=copy_of)
                self._link(ends, x)
                self._raise_from(x, outer)
                ends = [(x, "n")]
            return ends
        if isinstance(st, ast.Try) or st.__class__.__name__ == "TryStar":
            fin = _Frame("finally", body=st.finalbody, stmt=st) if st.finalbody else None
            base = frames + ((fin,) if fin else ())
            if st.handlers:
                dispatch = self._new("join", None, st, "except-dispatch")
                tf = _Frame("try", dispatch=dispatch)
                body_frames = base + (tf,)
            else:
                body_frames = base
            ends = self._seq(st.body, preds, body_frames, copy_of)
            if st.orelse:
                ends = self._seq(st.orelse, ends, base, copy_of)
            if st.handlers:
                catch_all = False
                for h in st.handlers:
                    hn = self._new("handler", h.type, st, copy_of=copy_of)
                    self._edge(dispatch, hn, "e")
                    hends = self._seq(h.body, [(hn, "n")], base, copy_of)
                    ends = ends + hends
                    tn = norm(h.type) if h.type is not None else ""
                    if h.type is None or tn == "BaseException":
                        catch_all = True
                if not catch_all:
                    self._edge(dispatch, self._route("raise", base), "e")
            if fin:
                j = self._new("join", None, st, "finally[normal]")
                self._link(ends, j)
                ends = self._seq(st.finalbody, [(j, "n")], frames,
                                 copy_of=copy_of or "finally[normal]")
            return ends
        raise AnalysisError(
            f"CFG: statement kind {type(st).__name__} at line "
            f"{getattr(st, 'lineno', '?')} is outside the enumerated idioms")

    # ------------------------------------------------------------- queries
    def stmt_nodes(self) -> List[Node]:
        return [n for n in self.nodes if n.kind not in ("entry", "exit", "raise", "join")]

    def successors(self, nid: int, labels: Optional[Set[str]] = None) -> List[int]:
        return [b for (b, l) in self.succ[nid] if labels is None or l in labels]

    def find_path(self, starts: Iterable[int], is_target: Callable[[int], bool],
                  blocked: Callable[[int], bool] = lambda n: False,
                  edge_ok: Callable[[int, int, str], bool] = lambda a, b, l: True
                  ) -> Optional[List[int]]:
        """Shortest path from any start to a target node that never enters a
        blocked node (starts themselves are not tested against `blocked`)."""
        parent: Dict[int, Optional[int]] = {}
        dq = deque()
        for s in starts:
            if s not in parent:
                parent[s] = None
                dq.append(s)
        while dq:
            a = dq.popleft()
            if is_target(a):
                path = []
                x = a
                while x is not None:
                    path.append(x)
                    x = parent[x]
                return list(reversed(path))
            for (b, l) in self.succ[a]:
                if b in parent or not edge_ok(a, b, l):
                    continue
                if blocked(b):
                    continue
                parent[b] = a
                dq.append(b)
        return None

    def reachable(self, starts: Iterable[int],
                  blocked: Callable[[int], bool] = lambda n: False,
                  edge_ok: Callable[[int, int, str], bool] = lambda a, b, l: True
                  ) -> Set[int]:
        seen: Set[int] = set()
        dq = deque()
        for s in starts:
            if s not in seen:
                seen.add(s)
                dq.append(s)
        while dq:
            a = dq.popleft()
            for (b, l) in self.succ[a]:
                if b in seen or not edge_ok(a, b, l) or blocked(b):
                    continue
                seen.add(b)
                dq.append(b)
        return seen

    def dominators(self, use_exc: bool = True) -> Dict[int, Set[int]]:
        ids = [n.id for n in self.nodes]
        reach = self.reachable([self.entry],
                               edge_ok=lambda a, b, l: use_exc or l != "e")
        dom = {i: set(reach) for i in reach}
        dom[self.entry] = {self.entry}
        changed = True
        order = [i for i in ids if i in reach]
        while changed:
            changed = False
            for i in order:
                if i == self.entry:
                    continue
                ps = [p for (p, l) in self.pred[i]
                      if p in reach and (use_exc or l != "e")]
                if not ps:
                    continue
                new = set.intersection(*(dom[p] for p in ps)) | {i}
                if new != dom[i]:
                    dom[i] = new
                    changed = True
        return dom

    def describe_path(self, path: List[int], loc: Callable[[ast.AST], str]) -> List[str]:
        out = []
        for nid in path:
            n = self.nodes[nid]
            where = loc(n.ast if n.ast is not None else n.stmt) \
                if (n.ast is not None or n.stmt is not None) else ""
            tag = f" ({n.copy_of})" if n.copy_of else ""
            out.append(f"{where} {n.text()}{tag}".strip())
        return out
