"""Frozen role vocabularies (DESIGN 0.3): which names denote the time step,
the start time, the end time, the step counter.  Discovered from the code,
confirmed by reading, printed in the evidence of the rules that use them."""
from __future__ import annotations

import ast
import re
from typing import Optional

from .model import dotted

DT_RE = re.compile(r"(^|_)dt(_|$)")
START_NAMES = {"start_time", "_start_time", "tmp_start_time"}
END_NAMES = {"end_time", "_end_time", "tmp_end_time"}
STEP_NAMES = {"step", "current_step", "next_step", "_step"}
NUM_STEPS_NAMES = {"num_steps", "_num_steps", "num_step"}

VOCAB = {
    "DT": "last component of the dotted name matches (^|_)dt(_|$): dt, dt_, _dt, bath_dt, "
          "system_dt, self._parameters.dt, process_tensor.dt",
    "START": sorted(START_NAMES),
    "END": sorted(END_NAMES),
    "STEP": sorted(STEP_NAMES),
    "NUM_STEPS": sorted(NUM_STEPS_NAMES),
}


def last(d: Optional[str]) -> str:
    return d.split(".")[-1] if d else ""


def role_of(e: ast.AST) -> Optional[str]:
    d = dotted(e)
    if d is None:
        return None
    l = last(d)
    if DT_RE.search(l):
        return "DT"
    if l in START_NAMES:
        return "START"
    if l in END_NAMES:
        return "END"
    if l in NUM_STEPS_NAMES:
        return "NUM_STEPS"
    if l in STEP_NAMES:
        return "STEP"
    return None
