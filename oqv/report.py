"""Result collection, known-findings matching, evidence and exit codes."""
from __future__ import annotations

import json
import os
import time
from dataclasses import dataclass, field
from typing import Any, Dict, List, Optional

from .model import AnalysisError

VERIF = os.path.dirname(os.path.dirname(os.path.abspath(__file__)))
KNOWN_FINDINGS = os.path.join(VERIF, "known_findings.json")


@dataclass
class Instance:
    rule: str
    module: str       # short module name, e.g. 'tempo'
    function: str     # qualified function / class, e.g. 'Tempo.compute'
    construct: str    # what the rule looked at (normalised, no line numbers)
    verdict: str      # 'ok' | 'violation' | 'unjudged' | 'exception'
    detail: str = ""
    loc: str = ""     # file:line for the reader
    path: Optional[List[str]] = None
    nontrivial: bool = True
    reason: str = ""  # for exceptions

    def key(self) -> Dict[str, str]:
        return {"module": self.module, "function": self.function,
                "construct": self.construct}

    def as_dict(self) -> Dict[str, Any]:
        d = {"rule": self.rule, **self.key(), "verdict": self.verdict,
             "loc": self.loc}
        if self.detail:
            d["detail"] = self.detail
        if self.path:
            d["path"] = self.path
        if self.reason:
            d["reason"] = self.reason
        return d


class Check:
    def __init__(self, pid: str, tier: str, repo: str, seed: int = 0):
        self.pid = pid
        self.tier = tier
        self.repo = repo
        self.seed = seed
        self.t0 = time.time()
        self.instances: List[Instance] = []
        self.floors: Dict[str, int] = {}
        self.rules: Dict[str, str] = {}
        self.explanation = ""
        self.not_decided = ""
        self.assumptions: List[str] = []
        self.extra: Dict[str, Any] = {}
        self.analysed_units: set = set()
        self.cfg_nodes = 0
        self.selftest: Optional[Dict[str, Any]] = None
        self.rule_errors: List[str] = []

    # --------------------------------------------------------------- record
    def rule(self, rid: str, text: str, floor: int = 1) -> None:
        self.rules[rid] = text
        self.floors[rid] = floor

    def add(self, rule: str, unit_or_mod, construct: str, ok: Optional[bool],
            detail: str = "", node=None, path=None, nontrivial: bool = True,
            function: Optional[str] = None, exception_reason: str = "") -> Instance:
        """ok True -> ok, False -> violation, None -> unjudged."""
        from .model import Unit, Module
        if isinstance(unit_or_mod, Unit):
            mod = unit_or_mod.module
            short = mod.short
            fn = function or unit_or_mod.qual.split(":", 1)[1]
            self.analysed_units.add(unit_or_mod.qual)
            loc = unit_or_mod.loc(node) if node is not None else unit_or_mod.loc()
        else:
            mod = unit_or_mod
            short = mod.short
            fn = function or "<module>"
            loc = mod.loc(node) if node is not None else mod.path
        verdict = "exception" if exception_reason else \
            ("ok" if ok else ("unjudged" if ok is None else "violation"))
        inst = Instance(rule, short, fn, construct, verdict, detail, loc, path,
                        nontrivial, exception_reason)
        self.instances.append(inst)
        return inst

    def call(self, fn, *args, **kw):
        """Run one rule function.  A vanished anchor inside it (AnalysisError) is recorded and
        the remaining rules still run: a violation found by another rule must not be masked.
        finish() turns recorded errors into exit 2 when nothing else was found."""
        try:
            return fn(*args, **kw)
        except AnalysisError as e:
            self.rule_errors.append(f"{getattr(fn, '__name__', 'rule')}: {e}")
            return None

    def saw(self, unit, cfg=None):
        self.analysed_units.add(unit.qual)
        if cfg is not None:
            self.cfg_nodes += len(cfg.nodes)

    # --------------------------------------------------------------- finish
    def _known(self) -> List[Dict[str, Any]]:
        if not os.path.exists(KNOWN_FINDINGS):
            return []
        with open(KNOWN_FINDINGS) as fh:
            data = json.load(fh)
        return [e for e in data.get("findings", []) if e.get("property") == self.pid]

    def finish(self, replay_filter: Optional[Dict[str, Any]] = None) -> int:
        # floors: a rule that matched fewer instances than confirmed by hand
        counts: Dict[str, int] = {}
        for i in self.instances:
            counts[i.rule] = counts.get(i.rule, 0) + 1
        has_violation = {i.rule for i in self.instances if i.verdict == "violation"}
        for rid, floor in self.floors.items():
            # a rule that already reports a violation is not vacuous
            if counts.get(rid, 0) < floor and rid not in has_violation:
                self.rule_errors.append(
                    f"rule {rid} matched {counts.get(rid, 0)} instance(s), "
                    f"floor confirmed by hand is {floor} - the rule would pass vacuously")

        known = self._known()
        violations: List[Instance] = []
        known_hits: List[Dict[str, Any]] = []
        for inst in self.instances:
            if inst.verdict != "violation":
                continue
            matched = None
            for e in known:
                if e.get("status") != "known":
                    continue
                if e.get("rule") == inst.rule and e.get("key") == inst.key():
                    matched = e
                    break
            if matched is not None:
                known_hits.append({"entry": matched, "instance": inst})
            else:
                violations.append(inst)
        if replay_filter is not None:
            violations = [v for v in violations
                          if v.rule == replay_filter.get("rule")
                          and v.key() == replay_filter.get("key")]

        if self.rule_errors and violations and replay_filter is None:
            # A tree that introduces private helpers unknown at the analysed baseline AND makes
            # a rule lose its anchors has been restructured.  Verdicts of the sibling rules
            # about the old (anchor) units of such a tree are then shape mismatches that nobody
            # confirmed: they are reported as unconfirmed (exit 2, re-confirm the tables), not
            # as violations.  Findings located inside one of the new helpers stand.
            from .model import _CURRENT
            drift = getattr(_CURRENT[-1], "new_private_names", {}) if _CURRENT else {}
            new_names = {n for v in drift.values() for n in v}
            drifted_modules = {f[:-3].replace("/", ".").split(".", 1)[-1] for f in drift}
            if new_names:
                # findings inside a new helper, or in a module nobody restructured, stand
                stand = [v for v in violations
                         if set(v.function.replace("<locals>", "").split(".")) & new_names
                         or v.module not in drifted_modules]
                if not stand:
                    for v in violations:
                        print(f"UNCONFIRMED property={self.pid} [{v.rule}] {v.loc} {v.module}:{v.function}: "
                              f"{v.construct} - {v.detail}")
                    raise AnalysisError(
                        "the tree was restructured (new private helpers "
                        f"{sorted(new_names)[:8]}) and part of the analysis lost its anchors: "
                        + "; ".join(self.rule_errors)
                        + f"; {len(violations)} shape mismatch(es) reported by the other rules are unconfirmed")
        if self.rule_errors:
            if not violations:
                # nothing else to report: the analysis itself is broken (exit 2)
                raise AnalysisError("; ".join(self.rule_errors))
            for msg in self.rule_errors:
                print(f"NOTE property={self.pid} part of the analysis could not be carried out "
                      f"on this tree ({msg}); the violations below were found by the rest")
        for kh in known_hits:
            e, inst = kh["entry"], kh["instance"]
            print(f"KNOWN-FINDING: property={self.pid} rule={inst.rule} "
                  f"{inst.module}:{inst.function} [{inst.construct}] "
                  f"{e.get('what_fails', '')} ({inst.loc})")

        replay_dir = os.environ.get("OQV_REPLAY_DIR") or \
            os.path.join(VERIF, "evidence", "replay")
        replays = []
        if violations:
            os.makedirs(replay_dir, exist_ok=True)
        for k, v in enumerate(violations):
            rp = os.path.join(replay_dir, f"{self.pid}-{k}.json")
            with open(rp, "w") as fh:
                json.dump({"property": self.pid, "rule": v.rule, "key": v.key(),
                           "loc": v.loc, "detail": v.detail, "path": v.path,
                           "rule_text": self.rules.get(v.rule, "")}, fh, indent=1)
            replays.append(rp)
            print(f"  {v.loc}: [{v.rule}] {v.module}:{v.function}: {v.construct}")
            if v.detail:
                print(f"      {v.detail}")
            if v.path:
                for line in v.path[:25]:
                    print(f"        -> {line}")
            print(f"VIOLATION property={self.pid} replay={rp}")

        if replay_filter is None:
            self._write_evidence(violations, known_hits)
        return 1 if violations else 0

    def _write_evidence(self, violations, known_hits) -> None:
        judged = [i for i in self.instances]
        distinct = {(i.rule, i.module, i.function, i.construct)
                    for i in judged if i.nontrivial and i.verdict in ("ok", "violation", "exception")}
        per_rule: Dict[str, Dict[str, int]] = {}
        for i in judged:
            d = per_rule.setdefault(i.rule, {"ok": 0, "violation": 0, "unjudged": 0,
                                             "exception": 0})
            d[i.verdict] += 1
        samples = [i.as_dict() for i in self.instances[:400]]
        import re as _re
        later = [r for r in self.rules if not _re.search(r"\b%s\b" % _re.escape(r), self.explanation)]
        explanation = self.explanation + (
            f" Rules added while testing the checker against seeded changes: "
            f"{', '.join(later)} - each is stated in full under coverage.rules." if later else "")
        cov = {
            "explanation": explanation,
            "not_decided": self.not_decided,
            "evaluations": len(judged),
            "distinct_nontrivial": len(distinct),
            "rule": "one evaluation = one rule instance (call site / path obligation / "
                    "table entry) found by parsing /repo on this run; distinct = distinct "
                    "(rule, module, function, construct) keys whose premise matched; "
                    "unjudged instances are excluded from distinct_nontrivial",
            "rules": self.rules,
            "floors": self.floors,
            "per_rule": per_rule,
            "samples": samples,
            "obligations": len([i for i in judged if i.verdict != "unjudged"]),
            "discharged": len([i for i in judged if i.verdict in ("ok", "exception")]),
            "functions_analysed": sorted(self.analysed_units),
            "cfg_nodes": self.cfg_nodes,
            "known_findings": [
                {"rule": kh["instance"].rule, **kh["instance"].key(),
                 "what_fails": kh["entry"].get("what_fails", "")} for kh in known_hits],
            "exceptions": [i.as_dict() for i in judged if i.verdict == "exception"],
            "unjudged": [i.as_dict() for i in judged if i.verdict == "unjudged"],
            "exhaustive": True,
            "repo": self.repo,
        }
        cov.update(self.extra)
        if self.selftest is not None:
            cov["selftest"] = self.selftest
        ev = {
            "property_id": self.pid,
            "tier": self.tier,
            "seed": int(self.seed),
            "level": "other",
            "coverage": cov,
            "assumptions": self.assumptions,
            "wall_s": round(time.time() - self.t0, 3),
            "violations": len(violations),
        }
        # evidence is only rewritten for runs against the real /repo
        if os.environ.get("OQV_NO_EVIDENCE") == "1":
            return
        edir = os.environ.get("OQV_EVIDENCE_DIR") or os.path.join(VERIF, "evidence")
        os.makedirs(edir, exist_ok=True)
        with open(os.path.join(edir, f"{self.pid}.json"), "w") as fh:
            json.dump(ev, fh, indent=1, sort_keys=False)
