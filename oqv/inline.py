"""Write new private helpers out at their call sites.

The rules read the *shape* of a small number of functions (the steppers, the back-end
initialisers, the integrand builders ...).  The most common behaviour-preserving change of
that shape is "extract method": a block moves into a new private helper and a call takes its
place.  To keep such a refactoring from hiding the block from the rules, the model undoes it
before anything else looks at the tree:

  a private function / method (name starts with one underscore) whose name is NOT in the
  frozen vocabulary of the analysed baseline (oqv/known_names.json) is *new*; every call of
  it that stands as a whole statement

      targets = _helper(a, b)          _helper(a, b)          return _helper(a, b)

  in the same module (functions) or in the same class (self._helper) is replaced by

      p1__hK = a; p2__hK = b           # parameters, in order (defaults for missing ones)
      <body of the helper, its locals renamed  name -> name__hK>
      targets = <returned expression>  # or `return <...>` / nothing

Only helpers with a simple shape are written out: no decorators, no *args / **kwargs, no
yield / nonlocal / global, no nested definitions, and every `return` in tail position (the
last statement, or the end of an if / else / with that is itself in tail position: guard
clauses `if c: return a` followed by more code count, the rest becomes the else branch).
A call that is nested in a simple statement (`xs.append(_helper(a))`, `return list(_helper(a))`,
`if _helper(a):`) is first moved into a temporary in front of the statement.  A helper that
consists of one `return <expression>` is also substituted where no statement can go
(comprehensions, lambdas, conditional expressions).
Everything else stays a call (rules then see an unknown callee, which they treat as they
treat any other).  Helpers that already exist at the baseline keep their calls: rules refer
to them by name.  The helper itself stays in the tree and is analysed as a unit of its own.

Writing a helper out changes nothing about what the code does; it changes what the
def-use and path analyses can see through.  Positions of the copied statements are those of
the helper's source lines.
"""
from __future__ import annotations

import ast
import copy
import json
import os
from typing import Dict, List, Optional, Set, Tuple

_KNOWN: Optional[Set[str]] = None


_KNOWN_NESTED: Optional[Set[str]] = None


def known_names() -> Set[str]:
    global _KNOWN, _KNOWN_NESTED
    if _KNOWN is None:
        p = os.path.join(os.path.dirname(os.path.abspath(__file__)), "known_names.json")
        with open(p) as fh:
            d = json.load(fh)
        _KNOWN = set(d["private_names"])
        _KNOWN_NESTED = set(d.get("nested_names", []))
    return _KNOWN


def known_nested_names() -> Set[str]:
    known_names()
    return _KNOWN_NESTED or set()


def _simple(fn: ast.FunctionDef) -> bool:
    if fn.decorator_list or fn.args.vararg or fn.args.kwarg or fn.args.posonlyargs:
        return False
    body = [b for b in fn.body if not (isinstance(b, ast.Expr) and isinstance(b.value, ast.Constant))]
    if not body:
        return False
    for x in ast.walk(fn):
        if x is fn:
            continue
        if isinstance(x, (ast.Yield, ast.YieldFrom, ast.Await, ast.Nonlocal, ast.Global,
                          ast.FunctionDef, ast.AsyncFunctionDef, ast.ClassDef, ast.Lambda)):
            return False
        if isinstance(x, ast.Call) and isinstance(x.func, ast.Name) and x.func.id == fn.name:
            return False
        if isinstance(x, ast.Call) and isinstance(x.func, ast.Attribute) and x.func.attr == fn.name:
            return False
    if _memo_like(fn):
        return False
    return _tail_returns(body)


_NEW_FUNCS: Dict[str, ast.FunctionDef] = {}      # new private functions of the module being read


def _straight_line(fn: ast.FunctionDef) -> bool:
    """assignments / expression statements and one final return: the shape of a closure that
    only regroups or renames values.  A closure with branches or loops is a piece of logic of
    its own and stays a call (rules that know such helpers read them themselves)."""
    body = [b for b in fn.body if not (isinstance(b, ast.Expr) and isinstance(b.value, ast.Constant))]
    return all(isinstance(b, (ast.Assign, ast.AnnAssign, ast.AugAssign, ast.Expr, ast.Return)) for b in body)


def _memo_like(fn: ast.FunctionDef, _depth: int = 0) -> bool:
    """stores into an element of a container held by the object and returns a value: the
    hand-written memo / cache idiom.  Such a helper stays a call and a unit of its own - the
    memo rules read it there, and a look-up written into the caller would hide the value
    behind the cache from every rule that follows values."""
    returns_value = any(isinstance(x, ast.Return) and x.value is not None for x in ast.walk(fn))
    if not returns_value:
        return False
    return _stores_into_object(fn, 0)


def _stores_into_object(fn: ast.FunctionDef, depth: int) -> bool:
    for x in ast.walk(fn):
        if isinstance(x, ast.Subscript) and isinstance(x.ctx, ast.Store):
            base = x.value
            while isinstance(base, ast.Subscript):
                base = base.value
            if isinstance(base, ast.Attribute):
                return True
        if isinstance(x, ast.Call) and depth < 3:
            # ... also through another new helper (the store extracted into a helper of its own)
            callee = x.func.id if isinstance(x.func, ast.Name) else \
                (x.func.attr if isinstance(x.func, ast.Attribute) else None)
            other = _NEW_FUNCS.get(callee)
            if other is not None and other is not fn and _stores_into_object(other, depth + 1):
                return True
    return False


def _has_return(st: ast.AST) -> bool:
    return any(isinstance(x, ast.Return) for x in ast.walk(st))


def _always_returns(stmts: List[ast.stmt]) -> bool:
    if not stmts:
        return False
    last = stmts[-1]
    if isinstance(last, (ast.Return, ast.Raise)):
        return True
    if isinstance(last, ast.If):
        return _always_returns(last.body) and _always_returns(last.orelse)
    if isinstance(last, ast.With):
        return _always_returns(last.body)
    return False


def _tail_returns(stmts: List[ast.stmt]) -> bool:
    """every Return below `stmts` is in tail position of `stmts`"""
    for i, st in enumerate(stmts):
        if isinstance(st, ast.Return):
            return i == len(stmts) - 1
        if not _has_return(st):
            continue
        rest = stmts[i + 1:]
        if isinstance(st, ast.If):
            if not rest:
                return _tail_returns(st.body) and _tail_returns(st.orelse)
            if _always_returns(st.body) and _tail_returns(st.body):
                return _tail_returns(list(st.orelse) + rest)
            if st.orelse and _always_returns(st.orelse) and _tail_returns(st.orelse):
                return _tail_returns(list(st.body) + rest)
            return False
        if isinstance(st, ast.With) and not rest:
            return _tail_returns(st.body)
        return False
    return True


def _retarget(stmts: List[ast.stmt], make) -> List[ast.stmt]:
    """The statements with every (tail) `return v` replaced by make(v) and the code after a
    returning branch moved into the other branch."""
    out: List[ast.stmt] = []
    for i, st in enumerate(stmts):
        if isinstance(st, ast.Return):
            out += make(st)
            return out
        if not _has_return(st):
            out.append(st)
            continue
        rest = stmts[i + 1:]
        if isinstance(st, ast.If):
            if not rest:
                st.body = _retarget(st.body, make) or [ast.copy_location(ast.Pass(), st)]
                st.orelse = _retarget(st.orelse, make)
            elif _always_returns(st.body):
                st.body = _retarget(st.body, make) or [ast.copy_location(ast.Pass(), st)]
                st.orelse = _retarget(list(st.orelse) + rest, make)
            else:
                st.body = _retarget(list(st.body) + rest, make)
                st.orelse = _retarget(st.orelse, make)
            out.append(st)
            return out
        if isinstance(st, ast.With):
            st.body = _retarget(st.body, make) or [ast.copy_location(ast.Pass(), st)]
            out.append(st)
            return out
        out.append(st)
    return out


def _expression_helper(fn: ast.FunctionDef) -> Optional[ast.AST]:
    body = [b for b in fn.body if not (isinstance(b, ast.Expr) and isinstance(b.value, ast.Constant))]
    if len(body) == 1 and isinstance(body[0], ast.Return) and body[0].value is not None:
        if not any(isinstance(x, ast.NamedExpr) for x in ast.walk(body[0].value)):
            return body[0].value
    return None


class _Renamer(ast.NodeTransformer):
    def __init__(self, mapping: Dict[str, str], subst: Optional[Dict[str, ast.AST]] = None):
        self.mapping = mapping
        self.subst = subst or {}

    def visit_ExceptHandler(self, node):
        self.generic_visit(node)
        if node.name and node.name in self.mapping:
            node.name = self.mapping[node.name]
        return node

    def visit_Name(self, node):
        if node.id in self.subst and isinstance(node.ctx, ast.Load):
            return copy.deepcopy(self.subst[node.id])
        if node.id in self.mapping:
            return ast.copy_location(ast.Name(id=self.mapping[node.id], ctx=node.ctx), node)
        return node


def _locals_of(fn: ast.FunctionDef) -> Set[str]:
    out = {a.arg for a in fn.args.args + fn.args.kwonlyargs}
    for x in ast.walk(fn):
        if isinstance(x, ast.Name) and isinstance(x.ctx, ast.Store):
            out.add(x.id)
        elif isinstance(x, ast.ExceptHandler) and x.name:
            out.add(x.name)
    return out


class Inliner:
    def __init__(self):
        self.k = 0
        self.count = 0
        self.removed: List[str] = []
        self.new_names: Set[str] = set()
        self._local: Dict[str, ast.FunctionDef] = {}

    def _bind(self, fn: ast.FunctionDef, call: ast.Call, method: bool) -> Optional[List[Tuple[str, ast.AST]]]:
        params = [a.arg for a in fn.args.args]
        defaults = dict(zip(params[len(params) - len(fn.args.defaults):], fn.args.defaults))
        if method:
            params = params[1:]
        for a, d in zip(fn.args.kwonlyargs, fn.args.kw_defaults):
            params.append(a.arg)
            if d is not None:
                defaults[a.arg] = d
        if any(isinstance(a, ast.Starred) for a in call.args) or any(k.arg is None for k in call.keywords):
            return None
        if len(call.args) > len([a for a in fn.args.args]) - (1 if method else 0):
            return None
        bound: Dict[str, ast.AST] = {}
        for p, a in zip(params, call.args):
            bound[p] = a
        for k in call.keywords:
            if k.arg not in params or k.arg in bound:
                return None
            bound[k.arg] = k.value
        out = []
        for p in params:
            if p in bound:
                out.append((p, bound[p]))
            elif p in defaults:
                out.append((p, defaults[p]))
            else:
                return None
        return out

    def expand(self, fn: ast.FunctionDef, call: ast.Call, stmt: ast.stmt, method: bool) -> Optional[List[ast.stmt]]:
        bound = self._bind(fn, call, method)
        if bound is None:
            return None
        self.k += 1
        tag = f"__h{self.k}"
        names = _locals_of(fn)
        if method:
            names.discard(fn.args.args[0].arg)
        mapping = {n: n + tag for n in names}
        if method and fn.args.args[0].arg != "self":
            mapping[fn.args.args[0].arg] = "self"
        out: List[ast.stmt] = []
        stored = {x.id for x in ast.walk(fn) if isinstance(x, ast.Name) and isinstance(x.ctx, (ast.Store, ast.Del))}
        subst: Dict[str, ast.AST] = {}
        # `a, b = _helper(a, b, c)` where the helper returns its own parameters a, b: the helper
        # updates the caller's variables; its statements then use the caller's names directly
        # (no  a__h = a ... a = a__h  copies around the block)
        inplace: Dict[str, str] = {}
        rets_ = [x for x in ast.walk(fn) if isinstance(x, ast.Return)]
        if isinstance(stmt, ast.Assign) and len(stmt.targets) == 1 and len(rets_) == 1 \
                and rets_[0].value is not None:
            rv, tg = rets_[0].value, stmt.targets[0]
            r_elts = list(rv.elts) if isinstance(rv, ast.Tuple) else [rv]
            t_elts = list(tg.elts) if isinstance(tg, (ast.Tuple, ast.List)) else [tg]
            args_of = dict(bound)
            if len(r_elts) == len(t_elts):
                for r_, t_ in zip(r_elts, t_elts):
                    if isinstance(r_, ast.Name) and isinstance(t_, ast.Name) and r_.id in args_of \
                            and isinstance(args_of[r_.id], ast.Name) and args_of[r_.id].id == t_.id:
                        inplace[r_.id] = t_.id
        for p_, a_ in inplace.items():
            mapping[p_] = a_
        for p, a in bound:
            if p in inplace:
                continue
            uses = sum(1 for x in ast.walk(fn) if isinstance(x, ast.Name) and x.id == p
                       and isinstance(x.ctx, ast.Load))
            touches_inplace = any(isinstance(x, ast.Name) and x.id in inplace.values() for x in ast.walk(a))
            if p not in stored and (isinstance(a, ast.Constant) or
                                    (not touches_inplace and (isinstance(a, ast.Name) or uses == 1))):
                # a plain name handed to a parameter that is never re-bound, or an expression
                # handed to a parameter that is read once: no alias needed
                subst[p] = a
                continue
            st = ast.Assign(targets=[ast.Name(id=mapping[p], ctx=ast.Store())], value=copy.deepcopy(a))
            out.append(ast.copy_location(st, stmt))
        body = [b for b in fn.body if not (isinstance(b, ast.Expr) and isinstance(b.value, ast.Constant))]
        body = [_Renamer(mapping, subst).visit(copy.deepcopy(b)) for b in body]

        def make(ret: ast.Return) -> List[ast.stmt]:
            value = ret.value
            if isinstance(stmt, ast.Assign):
                if inplace and value is not None:
                    # drop the  a = a  parts of the hand-back
                    tg = stmt.targets[0]
                    t_elts = list(tg.elts) if isinstance(tg, (ast.Tuple, ast.List)) else [tg]
                    v_elts = list(value.elts) if isinstance(value, ast.Tuple) and \
                        isinstance(tg, (ast.Tuple, ast.List)) else [value]
                    if len(t_elts) == len(v_elts):
                        keep = [(t_, v_) for t_, v_ in zip(t_elts, v_elts)
                                if not (isinstance(t_, ast.Name) and isinstance(v_, ast.Name) and t_.id == v_.id)]
                        if not keep:
                            return []
                        if len(keep) < len(t_elts):
                            if len(keep) == 1:
                                return [ast.copy_location(ast.Assign(
                                    targets=[copy.deepcopy(keep[0][0])], value=keep[0][1]), stmt)]
                            return [ast.copy_location(ast.Assign(
                                targets=[ast.Tuple(elts=[copy.deepcopy(k[0]) for k in keep], ctx=ast.Store())],
                                value=ast.Tuple(elts=[k[1] for k in keep], ctx=ast.Load())), stmt)]
                return [ast.copy_location(ast.Assign(
                    targets=copy.deepcopy(stmt.targets),
                    value=value if value is not None else ast.Constant(value=None)), stmt)]
            if isinstance(stmt, ast.Return):
                return [ast.copy_location(ast.Return(value=value), stmt)]
            if value is not None:
                return [ast.copy_location(ast.Expr(value=value), stmt)]
            return []
        body = _retarget(body, make)
        if isinstance(stmt, ast.Assign) and not _always_returns(fn.body):
            # falling off the end returns None
            out.append(ast.copy_location(ast.Assign(
                targets=copy.deepcopy(stmt.targets), value=ast.Constant(value=None)), stmt))
        out += body
        for s_ in out:
            ast.fix_missing_locations(s_)
        self.count += 1
        return out

    # ------------------------------------------------------------------ driver
    def run(self, tree: ast.Module) -> ast.Module:
        known = known_names()

        def new_private(name: str) -> bool:
            return name.startswith("_") and not name.startswith("__") and name not in known
        _NEW_FUNCS.clear()
        for x in ast.walk(tree):
            if isinstance(x, ast.FunctionDef) and new_private(x.name):
                self.new_names.add(x.name)
                _NEW_FUNCS[x.name] = x
        mod_helpers = {f.name: f for f in tree.body if isinstance(f, ast.FunctionDef)
                       and new_private(f.name) and _simple(f)}
        cls_helpers: Dict[str, Dict[str, ast.FunctionDef]] = {}
        for c in [x for x in tree.body if isinstance(x, ast.ClassDef)]:
            cls_helpers[c.name] = {f.name: f for f in c.body if isinstance(f, ast.FunctionDef)
                                   and new_private(f.name) and _simple(f)
                                   and f.args.args}
        nested_known_ = known_nested_names()
        has_new_closure = any(isinstance(y, ast.FunctionDef) and y is not x and y.name not in nested_known_
                              for x in ast.walk(tree) if isinstance(x, ast.FunctionDef)
                              for y in x.body)
        if not mod_helpers and not any(cls_helpers.values()) and not has_new_closure:
            return tree
        # methods of base classes defined in the same module are visible to subclasses
        bases = {c.name: [dotted_name(b) for b in c.bases] for c in tree.body if isinstance(c, ast.ClassDef)}

        def class_helper(cname: Optional[str], mname: str) -> Optional[ast.FunctionDef]:
            seen = set()
            work = [cname]
            while work:
                cn = work.pop()
                if cn is None or cn in seen:
                    continue
                seen.add(cn)
                if mname in cls_helpers.get(cn, {}):
                    return cls_helpers[cn][mname]
                work += [b for b in bases.get(cn, []) if b]
            return None

        def callee_of(call: ast.AST, cname: Optional[str]):
            if not isinstance(call, ast.Call):
                return None, False
            f = call.func
            if isinstance(f, ast.Name) and f.id in self._local:
                return self._local[f.id], False         # a new closure of the function being read
            if isinstance(f, ast.Name) and f.id in mod_helpers:
                return mod_helpers[f.id], False
            if isinstance(f, ast.Attribute) and isinstance(f.value, ast.Name) and f.value.id == "self":
                h = class_helper(cname, f.attr)
                if h is not None:
                    return h, True
            return None, False

        _OPAQUE = (ast.Lambda, ast.ListComp, ast.SetComp, ast.DictComp, ast.GeneratorExp,
                   ast.IfExp, ast.BoolOp, ast.NamedExpr)

        def hoist(st: ast.stmt, cname: Optional[str], current) -> List[ast.stmt]:
            """calls of new helpers nested in the expressions of a simple statement (or in
            the test of an if / the iterable of a for) are moved into temporaries in front"""
            if isinstance(st, (ast.Assign, ast.AnnAssign, ast.AugAssign, ast.Expr, ast.Return)):
                roots = [("value", st.value)]
                top = st.value if isinstance(st, (ast.Assign, ast.Expr, ast.Return)) else None
            elif isinstance(st, ast.If):
                roots, top = [("test", st.test)], None
            elif isinstance(st, ast.For):
                roots, top = [("iter", st.iter)], None
            else:
                return []
            pre: List[ast.stmt] = []

            def rec(node: ast.AST) -> ast.AST:
                if isinstance(node, _OPAQUE):
                    return node
                for field, val in ast.iter_fields(node):
                    if isinstance(val, ast.AST):
                        setattr(node, field, rec(val))
                    elif isinstance(val, list):
                        setattr(node, field, [rec(v) if isinstance(v, ast.AST) else v for v in val])
                if node is not top and isinstance(node, ast.Call):
                    fn, _m = callee_of(node, cname)
                    if fn is not None and fn is not current and _expression_helper(fn) is None:
                        # (a one-expression helper is substituted where it stands, later)
                        self.k += 1
                        tmp = f"value__t{self.k}"
                        pre.append(ast.copy_location(ast.Assign(
                            targets=[ast.Name(id=tmp, ctx=ast.Store())], value=node), st))
                        return ast.copy_location(ast.Name(id=tmp, ctx=ast.Load()), node)
                return node
            for field, val in roots:
                if val is not None:
                    setattr(st, field, rec(val))
            for p_ in pre:
                ast.fix_missing_locations(p_)
            return pre

        def block(stmts: List[ast.stmt], cname: Optional[str], current: Optional[ast.FunctionDef],
                  depth: int) -> List[ast.stmt]:
            out: List[ast.stmt] = []
            for st in stmts:
                if depth < 4:
                    pre = hoist(st, cname, current)
                    if pre:
                        out += block(pre, cname, current, depth)
                call = st.value if isinstance(st, (ast.Assign, ast.Expr, ast.Return)) else None
                fn, method = callee_of(call, cname)
                if fn is not None and fn is not current and depth < 4:
                    exp = self.expand(fn, call, st, method)
                    if exp is not None:
                        out += block(exp, cname, current, depth + 1)
                        continue
                for field in ("body", "orelse", "finalbody"):
                    b = getattr(st, field, None)
                    if isinstance(b, list) and b and isinstance(b[0], ast.stmt) \
                            and not isinstance(st, (ast.FunctionDef, ast.ClassDef)):
                        setattr(st, field, block(b, cname, current, depth))
                if isinstance(st, ast.Try):
                    for h in st.handlers:
                        h.body = block(h.body, cname, current, depth)
                out.append(st)
            return out

        outer = self

        class Substitute(ast.NodeTransformer):
            """one-expression helpers where no statement can go"""
            def __init__(self, cname, current):
                self.cname, self.current, self.depth = cname, current, 0

            def visit_Call(self, node):
                self.generic_visit(node)
                fn, method = callee_of(node, self.cname)
                if fn is None or fn is self.current or self.depth >= 4:
                    return node
                expr = _expression_helper(fn)
                if expr is None:
                    return node
                bound = outer._bind(fn, node, method)
                if bound is None:
                    return node
                outer.k += 1
                tag = f"__h{outer.k}"
                names = _locals_of(fn) - {p for p, _a in bound}
                if method:
                    names.discard(fn.args.args[0].arg)
                mapping = {n: n + tag for n in names}
                if method and fn.args.args[0].arg != "self":
                    mapping[fn.args.args[0].arg] = "self"
                new = _Renamer(mapping, dict(bound)).visit(copy.deepcopy(expr))
                ast.copy_location(new, node)
                ast.fix_missing_locations(new)
                outer.count += 1
                self.depth += 1
                new = self.visit(new)
                self.depth -= 1
                return new

        nested_known = known_nested_names()

        def visit_function(fn: ast.FunctionDef, cname: Optional[str]):
            # closures defined at the top of this function under a name the baseline does not
            # know: their direct calls in this function are written out like helper calls (the
            # closure's free variables are this function's own names, nothing to bind)
            self._local = {}
            for st in fn.body:
                if isinstance(st, ast.FunctionDef) and st.name not in nested_known \
                        and not st.name.startswith("__") and _simple(st) and _straight_line(st):
                    rebound = sum(1 for x in ast.walk(fn) if isinstance(x, ast.Name) and x.id == st.name
                                  and isinstance(x.ctx, ast.Store))
                    if rebound == 0:
                        self._local[st.name] = st
                        self.new_names.add(st.name)
            fn.body = block(fn.body, cname, fn, 0)
            local = dict(self._local)
            for x in fn.body:
                for y in ast.walk(x):
                    if isinstance(y, ast.FunctionDef):
                        y.body = block(y.body, cname, y, 0)
            sub = Substitute(cname, fn)
            fn.body = [b if b in local.values() else sub.visit(b) for b in fn.body]
            if local:
                # a closure that is no longer referenced is dropped
                for name, cl in list(local.items()):
                    refs = sum(1 for x in ast.walk(fn) if isinstance(x, ast.Name) and x.id == name
                               and not _inside(cl, x))
                    if refs == 0 and cl in fn.body:
                        fn.body.remove(cl)
                        self.removed.append(name)
            self._local = {}
        for node in tree.body:
            if isinstance(node, ast.FunctionDef):
                visit_function(node, None)
            elif isinstance(node, ast.ClassDef):
                for f in node.body:
                    if isinstance(f, ast.FunctionDef):
                        visit_function(f, node.name)
        # a new helper whose every call was written out is no unit of its own any more: what it
        # does is judged where it is used (its parameters mean nothing without a caller, and
        # who may call it is answered by where its statements now stand).  Memo-like helpers
        # are never written out, so they stay.
        helpers = list(mod_helpers.values()) + [f for d in cls_helpers.values() for f in d.values()]
        changed = True
        while changed:
            changed = False
            for h in list(helpers):
                refs = 0
                for x in ast.walk(tree):
                    if x is h:
                        continue
                    if (isinstance(x, ast.Name) and x.id == h.name) or \
                            (isinstance(x, ast.Attribute) and x.attr == h.name) or \
                            (isinstance(x, ast.Constant) and x.value == h.name):
                        if not _inside(h, x):
                            refs += 1
                if refs == 0:
                    _remove(tree, h)
                    helpers.remove(h)
                    self.removed.append(h.name)
                    changed = True
        ast.fix_missing_locations(tree)
        return tree


def _inside(fn: ast.AST, node: ast.AST) -> bool:
    return any(x is node for x in ast.walk(fn))


def _remove(tree: ast.Module, fn: ast.FunctionDef) -> None:
    if fn in tree.body:
        tree.body.remove(fn)
        return
    for c in tree.body:
        if isinstance(c, ast.ClassDef) and fn in c.body:
            c.body.remove(fn)
            if not c.body:
                c.body.append(ast.Pass())
            return


def dotted_name(e: ast.AST) -> Optional[str]:
    if isinstance(e, ast.Name):
        return e.id
    if isinstance(e, ast.Attribute):
        return e.attr
    return None


def write_out_new_helpers(tree: ast.Module) -> Tuple[ast.Module, int, Set[str]]:
    """-> (tree, number of calls written out, names of the private helpers that are new)"""
    inl = Inliner()
    tree = inl.run(tree)
    return tree, inl.count, inl.new_names
