"""oqv - repo-specific static analysis engine for OQuPy (stdlib `ast` only).

Nothing in this package imports or executes `oqupy`; every fact is computed
from the source text of the analysed tree.
"""
