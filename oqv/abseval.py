"""Tiny abstract evaluator for branch conditions under stated assumptions.

Used for path-conditioned questions ("assuming the file is writable and the
flag read back from HDF5 is a numpy True, is the reset executed?").
The one piece of typed knowledge it encodes (DESIGN 0.3): values read from
h5py attributes / numpy arrays are numpy scalars - truthy like their Python
value, equal to it, but never *identical* to the singletons True / False.
"""
from __future__ import annotations

import ast
from typing import Callable, Optional

from .model import norm


class _Sym:
    def __init__(self, name):
        self.name = name

    def __repr__(self):
        return self.name


UNKNOWN = _Sym("UNKNOWN")
NP_TRUE = _Sym("numpy.True_")
NP_FALSE = _Sym("numpy.False_")
OBJ = _Sym("some-object")        # not None, truthy


def truth(v) -> Optional[bool]:
    if v is UNKNOWN:
        return None
    if v is NP_TRUE or v is OBJ:
        return True
    if v is NP_FALSE:
        return False
    return bool(v)


def _py(v):
    """Python value with the same == behaviour, or UNKNOWN."""
    if v is NP_TRUE:
        return True
    if v is NP_FALSE:
        return False
    return v


def ev(e: ast.AST, lookup: Callable[[ast.AST], object]):
    r = lookup(e)
    if r is not UNKNOWN:
        return r
    if isinstance(e, ast.Constant):
        return e.value
    if isinstance(e, ast.UnaryOp) and isinstance(e.op, ast.Not):
        t = truth(ev(e.operand, lookup))
        return UNKNOWN if t is None else (not t)
    if isinstance(e, ast.BoolOp):
        vals = [truth(ev(v, lookup)) for v in e.values]
        if isinstance(e.op, ast.And):
            if any(v is False for v in vals):
                return False
            if all(v is True for v in vals):
                return True
            return UNKNOWN
        if any(v is True for v in vals):
            return True
        if all(v is False for v in vals):
            return False
        return UNKNOWN
    if isinstance(e, ast.Compare) and len(e.ops) == 1:
        a = ev(e.left, lookup)
        b = ev(e.comparators[0], lookup)
        op = e.ops[0]
        if a is UNKNOWN or b is UNKNOWN:
            return UNKNOWN
        if isinstance(op, (ast.Is, ast.IsNot)):
            np_a, np_b = a in (NP_TRUE, NP_FALSE), b in (NP_TRUE, NP_FALSE)
            if np_a != np_b:
                same = False       # a numpy scalar is never the Python singleton
            elif a is OBJ or b is OBJ:
                if a is OBJ and b is OBJ:
                    return UNKNOWN
                other = b if a is OBJ else a
                if other is None or isinstance(other, bool):
                    same = False
                else:
                    return UNKNOWN
            elif np_a and np_b:
                return UNKNOWN
            elif (a is None or isinstance(a, bool)) and (b is None or isinstance(b, bool)):
                same = a is b
            else:
                return UNKNOWN
            return same if isinstance(op, ast.Is) else (not same)
        if isinstance(op, (ast.Eq, ast.NotEq)):
            if a is OBJ or b is OBJ:
                return UNKNOWN
            r = _py(a) == _py(b)
            return r if isinstance(op, ast.Eq) else (not r)
        return UNKNOWN
    if isinstance(e, ast.Call) and isinstance(e.func, ast.Name) and e.func.id == "bool" \
            and len(e.args) == 1:
        t = truth(ev(e.args[0], lookup))
        return UNKNOWN if t is None else t
    return UNKNOWN


def feasible_edges(cfg, lookup_for_node: Callable[[int, ast.AST], object]):
    """edge_ok predicate for CFG.find_path: prunes branches contradicted by the
    abstract value of the test."""
    def ok(a, b, label):
        n = cfg.nodes[a]
        if n.kind != "test" or label not in ("t", "f"):
            return True
        t = truth(ev(n.ast, lambda x: lookup_for_node(a, x)))
        if t is None:
            return True
        return (label == "t") == t
    return ok
