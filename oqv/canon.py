"""Spelling-level canonicalisations of a module tree (applied after helpers were written out).

Each rewrite replaces one spelling by another spelling of the same computation, so that the
rules have to know one of them only:

  unpack_indexed      a, b, c = [x[i] for i in range(3)]      ->  a, b, c = (x[0], x[1], x[2])
  fuse_zip_of_map     [f(u, w) for u, w in zip(A, (g(v) for v in B))]
                                                               ->  [f(u, g(v)) for u, v in zip(A, B)]
                      (the mapped operand must be a generator / list comprehension over one
                       iterable without conditions, and `w` a plain name)
  self_aliases        backend = self._backend_instance ... backend.compute_step()
                                                               ->  self._backend_instance.compute_step()
                      (a local bound exactly once, at the top level of the function, to an
                       attribute chain on self that the function never assigns)
  list_of_projection  [p for p, _ in pairs] as the iterable of another comprehension is left alone
                      unless it is an operand of zip (handled by fuse_zip_of_map)
  append_loops        xs = []; for t in it: xs.append(e)        ->  xs = [e for t in it]
  split_parallel      a, b = (x, y)                             ->  a = x; b = y
  conditional / default-then-override assignments               ->  if / else statements
  flag locals, self aliases, **dict keywords                    (see the functions below)
"""
from __future__ import annotations

import ast
import copy
from typing import Dict, List, Optional, Set


class _Subst(ast.NodeTransformer):
    def __init__(self, mapping: Dict[str, ast.AST]):
        self.mapping = mapping

    def visit_Name(self, node):
        if isinstance(node.ctx, ast.Load) and node.id in self.mapping:
            return ast.copy_location(copy.deepcopy(self.mapping[node.id]), node)
        return node


def _names_stored(t: ast.AST) -> Set[str]:
    return {x.id for x in ast.walk(t) if isinstance(x, ast.Name) and isinstance(x.ctx, ast.Store)}


def _names_loaded(t: ast.AST) -> Set[str]:
    return {x.id for x in ast.walk(t) if isinstance(x, ast.Name) and isinstance(x.ctx, ast.Load)}


class _UnpackIndexed(ast.NodeTransformer):
    def visit_Assign(self, node):
        self.generic_visit(node)
        if len(node.targets) != 1 or not isinstance(node.targets[0], (ast.Tuple, ast.List)):
            return node
        n = len(node.targets[0].elts)
        v = node.value
        if not isinstance(v, (ast.ListComp, ast.GeneratorExp)) or len(v.generators) != 1:
            return node
        g = v.generators[0]
        if g.ifs or g.is_async or not isinstance(g.target, ast.Name):
            return node
        it = g.iter
        if not (isinstance(it, ast.Call) and isinstance(it.func, ast.Name) and it.func.id == "range"
                and len(it.args) == 1 and isinstance(it.args[0], ast.Constant)
                and it.args[0].value == n and not it.keywords):
            return node
        elts = [_Subst({g.target.id: ast.Constant(value=i)}).visit(copy.deepcopy(v.elt)) for i in range(n)]
        node.value = ast.copy_location(ast.Tuple(elts=elts, ctx=ast.Load()), v)
        ast.fix_missing_locations(node)
        return node


class _FuseZipOfMap(ast.NodeTransformer):
    def _fuse(self, comp):
        changed = False
        for g in comp.generators:
            it = g.iter
            if not (isinstance(it, ast.Call) and isinstance(it.func, ast.Name) and it.func.id == "zip"
                    and not it.keywords and isinstance(g.target, (ast.Tuple, ast.List))
                    and len(g.target.elts) == len(it.args)):
                continue
            for k, (arg, tgt) in enumerate(zip(list(it.args), list(g.target.elts))):
                if not isinstance(arg, (ast.GeneratorExp, ast.ListComp)) or len(arg.generators) != 1:
                    continue
                ig = arg.generators[0]
                if ig.ifs or ig.is_async or not isinstance(tgt, ast.Name):
                    continue
                inner_names = _names_stored(ig.target)
                # the inner loop variables must not collide with names of the outer comprehension
                outer_names = set()
                for g2 in comp.generators:
                    outer_names |= _names_stored(g2.target)
                outer_names.discard(tgt.id)
                loaded = set()
                for part in ([comp.elt] if hasattr(comp, "elt") else [comp.key, comp.value]):
                    loaded |= _names_loaded(part)
                if (inner_names - {"_"}) & (outer_names | (loaded - {tgt.id})):
                    continue
                it.args[k] = ig.iter
                g.target.elts[k] = copy.deepcopy(ig.target)
                sub = _Subst({tgt.id: arg.elt})
                if hasattr(comp, "elt"):
                    comp.elt = sub.visit(comp.elt)
                else:
                    comp.key, comp.value = sub.visit(comp.key), sub.visit(comp.value)
                for g2 in comp.generators:
                    g2.ifs = [sub.visit(c) for c in g2.ifs]
                changed = True
        if changed:
            ast.fix_missing_locations(comp)
        return comp

    def visit_ListComp(self, node):
        self.generic_visit(node)
        return self._fuse(node)

    visit_GeneratorExp = visit_ListComp
    visit_SetComp = visit_ListComp

    def visit_DictComp(self, node):
        self.generic_visit(node)
        return self._fuse(node)


def _self_chain(e: ast.AST) -> Optional[str]:
    parts = []
    while isinstance(e, ast.Attribute):
        parts.append(e.attr)
        e = e.value
    if isinstance(e, ast.Name) and e.id == "self" and parts:
        return "self." + ".".join(reversed(parts))
    return None


def _self_aliases(fn: ast.FunctionDef) -> None:
    if not fn.args.args or fn.args.args[0].arg != "self":
        return
    stores: Dict[str, int] = {}
    for x in ast.walk(fn):
        if isinstance(x, ast.Name) and isinstance(x.ctx, (ast.Store, ast.Del)):
            stores[x.id] = stores.get(x.id, 0) + 1
        elif isinstance(x, (ast.FunctionDef, ast.Lambda)) and x is not fn:
            return          # closures: leave the function as written
    params = {a.arg for a in fn.args.args + fn.args.kwonlyargs}
    assigned_chains = set()
    for x in ast.walk(fn):
        if isinstance(x, ast.Attribute) and isinstance(x.ctx, (ast.Store, ast.Del)):
            c = _self_chain(x)
            if c:
                assigned_chains.add(c)
    mapping: Dict[str, ast.AST] = {}
    keep: List[ast.stmt] = []
    for st in fn.body:
        if isinstance(st, ast.Assign) and len(st.targets) == 1 and isinstance(st.targets[0], ast.Name):
            name = st.targets[0].id
            chain = _self_chain(st.value)
            if chain and stores.get(name) == 1 and name not in params and \
                    not any(chain == a or chain.startswith(a + ".") for a in assigned_chains):
                mapping[name] = st.value
                continue
        keep.append(st)
    if not mapping:
        return
    # a use before the binding would be an error in the original; nothing to preserve
    fn.body = [_Subst(mapping).visit(st) for st in keep] or [ast.Pass()]
    ast.fix_missing_locations(fn)


class _SplitConditional(ast.NodeTransformer):
    """x = a if c else b   ->   if c: x = a  else: x = b      (also for return)"""

    def _split(self, node, make):
        v = node.value
        if not isinstance(v, ast.IfExp):
            return node
        a, b = make(v.body), make(v.orelse)
        new = ast.If(test=v.test, body=[self._again(a)], orelse=[self._again(b)])
        ast.copy_location(new, node)
        ast.copy_location(a, v.body)
        ast.copy_location(b, v.orelse)
        return new

    def _again(self, st):
        r = self.visit(st)
        return r

    def visit_Assign(self, node):
        if any(not isinstance(t, (ast.Name, ast.Attribute)) for t in node.targets):
            return node
        return self._split(node, lambda val: ast.Assign(targets=copy.deepcopy(node.targets), value=val))

    def visit_Return(self, node):
        if node.value is None:
            return node
        return self._split(node, lambda val: ast.Return(value=val))

    def visit_Lambda(self, node):
        return node


class _DefaultThenOverride(ast.NodeTransformer):
    """x = D; if c: x = A      ->      if c: x = A  else: x = D
    for a plain default D (constant, name, attribute chain) directly in front of a one-armed if
    whose only statement assigns x, with neither c nor A reading x."""

    def _block(self, stmts: List[ast.stmt]) -> List[ast.stmt]:
        out: List[ast.stmt] = []
        i = 0
        while i < len(stmts):
            st = stmts[i]
            nxt = stmts[i + 1] if i + 1 < len(stmts) else None
            if isinstance(st, ast.Assign) and len(st.targets) == 1 and isinstance(st.targets[0], ast.Name) \
                    and isinstance(nxt, ast.If) and not nxt.orelse and len(nxt.body) == 1 \
                    and isinstance(nxt.body[0], ast.Assign) and len(nxt.body[0].targets) == 1 \
                    and isinstance(nxt.body[0].targets[0], ast.Name) \
                    and nxt.body[0].targets[0].id == st.targets[0].id:
                name = st.targets[0].id
                d = st.value
                plain = isinstance(d, (ast.Constant, ast.Name)) or (
                    isinstance(d, ast.Attribute) and all(
                        isinstance(y, (ast.Attribute, ast.Name, ast.Load)) for y in ast.walk(d)))
                if plain and name not in _names_loaded(nxt.test) and \
                        name not in _names_loaded(nxt.body[0].value) and name not in _names_loaded(d):
                    nxt.orelse = [st]
                    out.append(nxt)
                    i += 2
                    continue
            out.append(st)
            i += 1
        return out

    def generic_visit(self, node):
        super().generic_visit(node)
        for field in ("body", "orelse", "finalbody"):
            b = getattr(node, field, None)
            if isinstance(b, list) and b and isinstance(b[0], ast.stmt):
                setattr(node, field, self._block(b))
        return node


def split_conditional_assignments(tree: ast.Module) -> ast.Module:
    tree = _SplitConditional().visit(tree)
    tree = _DefaultThenOverride().visit(tree)
    ast.fix_missing_locations(tree)
    return tree


def _chains_loaded(e: ast.AST) -> Set[str]:
    out = set()
    for x in ast.walk(e):
        if isinstance(x, ast.Name) and isinstance(x.ctx, ast.Load):
            out.add(x.id)
        elif isinstance(x, ast.Attribute) and isinstance(x.ctx, ast.Load):
            c = _self_chain(x)
            if c:
                out.add(c)
    return out


def _stores(st: ast.AST) -> Set[str]:
    out = set()
    for x in ast.walk(st):
        if isinstance(x, ast.Name) and isinstance(x.ctx, (ast.Store, ast.Del)):
            out.add(x.id)
        elif isinstance(x, ast.Attribute) and isinstance(x.ctx, (ast.Store, ast.Del)):
            c = _self_chain(x)
            if c:
                out.add(c)
        elif isinstance(x, ast.AugAssign):
            c = _self_chain(x.target) if isinstance(x.target, ast.Attribute) else None
            if c:
                out.add(c)
    return out


def _flag_locals(fn: ast.FunctionDef) -> None:
    """flag = <comparison>  ...  if flag:      ->      if <comparison>:
    for a local bound once to a boolean expression and read only by the tests of if / assert
    statements (or a return) that follow in the same block with nothing in between that could
    change what the expression reads."""
    stores: Dict[str, int] = {}
    loads: Dict[str, int] = {}
    for x in ast.walk(fn):
        if isinstance(x, ast.Name):
            if isinstance(x.ctx, ast.Load):
                loads[x.id] = loads.get(x.id, 0) + 1
            else:
                stores[x.id] = stores.get(x.id, 0) + 1
    params = {a.arg for a in fn.args.args + fn.args.kwonlyargs}

    def boolean(v: ast.AST) -> Optional[ast.AST]:
        if isinstance(v, ast.Call) and isinstance(v.func, ast.Name) and v.func.id == "bool" \
                and len(v.args) == 1 and not v.keywords:
            v = v.args[0]
        if isinstance(v, (ast.Compare, ast.BoolOp)) or \
                (isinstance(v, ast.UnaryOp) and isinstance(v.op, ast.Not)):
            if not any(isinstance(y, (ast.Call, ast.NamedExpr, ast.Lambda)) for y in ast.walk(v)
                       if not (isinstance(y, ast.Call) and isinstance(y.func, ast.Name)
                               and y.func.id in ("len", "isinstance"))):
                return v
        return None

    def block(stmts: List[ast.stmt]) -> List[ast.stmt]:
        i = 0
        while i < len(stmts):
            st = stmts[i]
            for field in ("body", "orelse", "finalbody"):
                b = getattr(st, field, None)
                if isinstance(b, list) and b and isinstance(b[0], ast.stmt) \
                        and not isinstance(st, (ast.FunctionDef, ast.ClassDef)):
                    setattr(st, field, block(b))
            if isinstance(st, ast.Try):
                for h in st.handlers:
                    h.body = block(h.body)
            if isinstance(st, ast.Assign) and len(st.targets) == 1 and isinstance(st.targets[0], ast.Name):
                name = st.targets[0].id
                v = boolean(st.value)
                if v is not None and stores.get(name) == 1 and name not in params and loads.get(name, 0) >= 1:
                    reads = _chains_loaded(v)
                    found = 0
                    ok = True
                    users = []
                    for later in stmts[i + 1:]:
                        slot = None
                        if isinstance(later, (ast.If, ast.Assert)):
                            slot = "test"
                        elif isinstance(later, ast.Return) and later.value is not None:
                            slot = "value"
                        n_here = sum(1 for y in ast.walk(later) if isinstance(y, ast.Name) and y.id == name)
                        n_slot = sum(1 for y in ast.walk(getattr(later, slot)) if isinstance(y, ast.Name)
                                     and y.id == name) if slot else 0
                        if n_here != n_slot:
                            ok = False
                            break
                        if n_slot:
                            users.append((later, slot))
                            found += n_slot
                        if found == loads.get(name, 0):
                            break
                        # a statement between the binding and a later use must not touch
                        # anything the expression reads
                        if _stores(later) & reads or any(
                                isinstance(y, (ast.Call, ast.Yield, ast.Await)) for y in ast.walk(later)) \
                                or isinstance(later, (ast.For, ast.While, ast.With, ast.Try)):
                            if found < loads.get(name, 0):
                                ok = False
                                break
                    if ok and found == loads.get(name, 0) and users:
                        # uses inside a compound statement's test only: the body runs afterwards
                        for later, slot in users:
                            setattr(later, slot, _Subst({name: v}).visit(getattr(later, slot)))
                        del stmts[i]
                        continue
            i += 1
        return stmts
    fn.body = block(fn.body) or [ast.Pass()]
    ast.fix_missing_locations(fn)


def _dict_kwargs(fn: ast.FunctionDef) -> None:
    """options = {"a": 1, "b": self._x} ... f(**options)      ->      f(a=1, b=self._x)
    for a local bound once to a dict display with constant keys and plain values (constants,
    names, attribute chains on self) that is read only as `**options`."""
    stores: Dict[str, int] = {}
    for x in ast.walk(fn):
        if isinstance(x, ast.Name) and isinstance(x.ctx, (ast.Store, ast.Del)):
            stores[x.id] = stores.get(x.id, 0) + 1
    cands: Dict[str, ast.Assign] = {}
    for st in ast.walk(fn):
        if isinstance(st, ast.Assign) and len(st.targets) == 1 and isinstance(st.targets[0], ast.Name) \
                and isinstance(st.value, ast.Dict) and st.value.keys \
                and all(isinstance(k, ast.Constant) and isinstance(k.value, str) for k in st.value.keys) \
                and all(isinstance(v, (ast.Constant, ast.Name)) or _self_chain(v) for v in st.value.values) \
                and stores.get(st.targets[0].id) == 1:
            cands[st.targets[0].id] = st
    if not cands:
        return
    star_uses = {id(k.value) for c in ast.walk(fn) if isinstance(c, ast.Call)
                 for k in c.keywords if k.arg is None and isinstance(k.value, ast.Name)}
    for x in ast.walk(fn):
        if isinstance(x, ast.Name) and isinstance(x.ctx, ast.Load) and x.id in cands \
                and id(x) not in star_uses:
            cands.pop(x.id)
    if not cands:
        return
    for c in ast.walk(fn):
        if isinstance(c, ast.Call):
            new_kw = []
            for k in c.keywords:
                if k.arg is None and isinstance(k.value, ast.Name) and k.value.id in cands:
                    d = cands[k.value.id].value
                    new_kw += [ast.keyword(arg=kk.value, value=copy.deepcopy(vv))
                               for kk, vv in zip(d.keys, d.values)]
                else:
                    new_kw.append(k)
            c.keywords = new_kw
    drop = {id(st) for st in cands.values()}

    def prune(stmts):
        out = []
        for st in stmts:
            if id(st) in drop:
                continue
            for field in ("body", "orelse", "finalbody"):
                b = getattr(st, field, None)
                if isinstance(b, list) and b and isinstance(b[0], ast.stmt):
                    setattr(st, field, prune(b) or ([ast.Pass()] if field == "body" else []))
            if isinstance(st, ast.Try):
                for h in st.handlers:
                    h.body = prune(h.body) or [ast.Pass()]
            out.append(st)
        return out
    fn.body = prune(fn.body) or [ast.Pass()]
    ast.fix_missing_locations(fn)


class _SplitParallel(ast.NodeTransformer):
    """a, b = (x, y)      ->      a = x; b = y
    when no later value reads what an earlier target binds (so `a, b = b, a` stays)."""

    def _block(self, stmts: List[ast.stmt]) -> List[ast.stmt]:
        out: List[ast.stmt] = []
        for st in stmts:
            if isinstance(st, ast.Assign) and len(st.targets) == 1 \
                    and isinstance(st.targets[0], (ast.Tuple, ast.List)) \
                    and isinstance(st.value, (ast.Tuple, ast.List)) \
                    and len(st.targets[0].elts) == len(st.value.elts) \
                    and not any(isinstance(x, ast.Starred) for x in st.targets[0].elts + st.value.elts):
                tg, vs = st.targets[0].elts, st.value.elts
                bound: Set[str] = set()
                ok = True
                for t_, v_ in zip(tg, vs):
                    reads = _chains_loaded(v_) | _names_loaded(v_)
                    if reads & bound:
                        ok = False
                        break
                    bound |= _stores(t_) | {x.id for x in ast.walk(t_) if isinstance(x, ast.Name)}
                    c_ = _self_chain(t_) if isinstance(t_, ast.Attribute) else None
                    if c_:
                        bound.add(c_)
                if ok:
                    for t_, v_ in zip(tg, vs):
                        new = ast.Assign(targets=[t_], value=v_)
                        out.append(ast.copy_location(new, st))
                    continue
            out.append(st)
        return out

    def generic_visit(self, node):
        super().generic_visit(node)
        for field in ("body", "orelse", "finalbody"):
            b = getattr(node, field, None)
            if isinstance(b, list) and b and isinstance(b[0], ast.stmt):
                setattr(node, field, self._block(b))
        return node


class _AppendLoops(ast.NodeTransformer):
    """xs = []; for t in it: xs.append(e)      ->      xs = [e for t in it]
    when the loop body is that single append, there is no else branch, neither e nor it reads
    xs, and the loop variable is not read outside the loop (a comprehension keeps it private)."""

    def visit_FunctionDef(self, node):
        leaked = set()
        binders = [x for x in ast.walk(node) if isinstance(x, (ast.For, ast.ListComp, ast.GeneratorExp,
                                                               ast.SetComp, ast.DictComp))]

        def bound_by(b):
            tg = [b.target] if isinstance(b, ast.For) else [g.target for g in b.generators]
            return {y.id for t in tg for y in ast.walk(t) if isinstance(y, ast.Name)}
        for loop in [x for x in binders if isinstance(x, ast.For)]:
            tgt = bound_by(loop)
            inside = {id(y) for y in ast.walk(loop)}
            # reads inside another loop / comprehension that binds the name itself see that binding
            own = set()
            for b in binders:
                if b is not loop and bound_by(b) & tgt and not any(z is loop for z in ast.walk(b)):
                    own |= {id(y) for y in ast.walk(b)}
            for y in ast.walk(node):
                if isinstance(y, ast.Name) and y.id in tgt and id(y) not in inside and id(y) not in own \
                        and isinstance(y.ctx, ast.Load):
                    leaked.add(y.id)
        prev, prev_fn = getattr(self, "_leaked", set()), getattr(self, "_fn", None)
        self._leaked, self._fn = leaked, node
        try:
            self.generic_visit(node)
        finally:
            self._leaked, self._fn = prev, prev_fn
        return node

    def _block(self, stmts: List[ast.stmt]) -> List[ast.stmt]:
        out: List[ast.stmt] = []
        i = 0
        while i < len(stmts):
            st = stmts[i]
            nxt = stmts[i + 1] if i + 1 < len(stmts) else None
            if isinstance(nxt, ast.For) and len(nxt.body) == 2 and isinstance(nxt.body[0], ast.Assign) \
                    and len(nxt.body[0].targets) == 1 and isinstance(nxt.body[0].targets[0], ast.Name) \
                    and isinstance(nxt.body[1], ast.Expr) and isinstance(nxt.body[1].value, ast.Call) \
                    and len(nxt.body[1].value.args) == 1 \
                    and isinstance(nxt.body[1].value.args[0], ast.Name) \
                    and nxt.body[1].value.args[0].id == nxt.body[0].targets[0].id:
                # t = e; xs.append(t)  with t used for nothing else: the same as xs.append(e)
                tmp = nxt.body[0].targets[0].id
                uses = sum(1 for y in ast.walk(getattr(self, "_fn", nxt)) if isinstance(y, ast.Name) and y.id == tmp)
                if uses == 2:
                    call_ = nxt.body[1].value
                    call_.args = [nxt.body[0].value]
                    nxt.body = [nxt.body[1]]
            if isinstance(st, ast.Assign) and len(st.targets) == 1 and isinstance(st.targets[0], ast.Name) \
                    and isinstance(st.value, ast.List) and not st.value.elts \
                    and isinstance(nxt, ast.For) and not nxt.orelse and len(nxt.body) == 1 \
                    and isinstance(nxt.body[0], ast.Expr) and isinstance(nxt.body[0].value, ast.Call):
                name = st.targets[0].id
                c = nxt.body[0].value
                tnames = {y.id for y in ast.walk(nxt.target) if isinstance(y, ast.Name)}
                if isinstance(c.func, ast.Attribute) and c.func.attr == "append" \
                        and isinstance(c.func.value, ast.Name) and c.func.value.id == name \
                        and len(c.args) == 1 and not c.keywords \
                        and name not in _names_loaded(c.args[0]) and name not in _names_loaded(nxt.iter) \
                        and not (tnames & getattr(self, "_leaked", set())) \
                        and not any(isinstance(x, (ast.Yield, ast.YieldFrom, ast.Await, ast.NamedExpr))
                                    for x in ast.walk(c.args[0])):
                    comp = ast.ListComp(elt=c.args[0], generators=[
                        ast.comprehension(target=nxt.target, iter=nxt.iter, ifs=[], is_async=0)])
                    ast.copy_location(comp, nxt)
                    out.append(ast.copy_location(ast.Assign(targets=st.targets, value=comp), st))
                    i += 2
                    continue
            out.append(st)
            i += 1
        return out

    def generic_visit(self, node):
        super().generic_visit(node)
        if isinstance(node, (ast.Module, ast.ClassDef)):
            return node
        for field in ("body", "orelse", "finalbody"):
            b = getattr(node, field, None)
            if isinstance(b, list) and b and isinstance(b[0], ast.stmt):
                setattr(node, field, self._block(b))
        return node


class _CounterAug(ast.NodeTransformer):
    """x = x + 1 / x = 1 + x / x = x - 1      ->      x += 1 / x -= 1
    for a name or attribute chain and an integer literal (counters)."""

    def visit_Assign(self, node):
        self.generic_visit(node)
        if len(node.targets) != 1 or not isinstance(node.targets[0], (ast.Name, ast.Attribute)):
            return node
        v = node.value
        if not (isinstance(v, ast.BinOp) and isinstance(v.op, (ast.Add, ast.Sub))):
            return node
        t = node.targets[0]

        def same(e):
            return norm_dump(e) == norm_dump(t)

        def lit(e):
            return isinstance(e, ast.Constant) and isinstance(e.value, int) and not isinstance(e.value, bool)
        if same(v.left) and lit(v.right):
            return ast.copy_location(ast.AugAssign(target=t, op=v.op, value=v.right), node)
        if isinstance(v.op, ast.Add) and same(v.right) and lit(v.left):
            return ast.copy_location(ast.AugAssign(target=t, op=v.op, value=v.left), node)
        return node


def norm_dump(e: ast.AST) -> str:
    """structure of an expression without the load / store context"""
    import re
    return re.sub(r"ctx=(Load|Store|Del)\(\)", "", ast.dump(e))


def canonicalise(tree: ast.Module, aliases: bool = True) -> ast.Module:
    tree = split_conditional_assignments(tree)
    tree = _UnpackIndexed().visit(tree)
    tree = _SplitParallel().visit(tree)
    tree = _AppendLoops().visit(tree)
    tree = _CounterAug().visit(tree)
    tree = _FuseZipOfMap().visit(tree)
    if aliases:
        for x in ast.walk(tree):
            if isinstance(x, ast.FunctionDef):
                _self_aliases(x)
                _flag_locals(x)
                _dict_kwargs(x)
    ast.fix_missing_locations(tree)
    return tree
