"""Path-conditioned reaching definitions and forms.

A *case* fixes the outcome of some atomic branch conditions ("dk < 0",
"self._dkmax is None").  Under a case only the CFG edges that agree with the
decided tests are followed; definitions and forms are then read along the
remaining (feasible) paths.  Tests the case does not decide stay open - both
outcomes are explored, so the result over-approximates the feasible paths and
never drops one.
"""
from __future__ import annotations

import ast
from typing import Callable, Dict, List, Optional, Set, Tuple

from . import abseval as ae
from .dataflow import Def, DefUse
from .forms import Poly, eval_form
from .model import AnalysisError, dotted, norm

Decide = Callable[[int, ast.AST], Optional[bool]]


class Case:
    def __init__(self, du: DefUse, decide: Decide, label: str = ""):
        self.du = du
        self.g = du.cfg
        self.label = label

        def lookup(nid, e):
            r = decide(nid, e)
            return ae.UNKNOWN if r is None else r
        self.edge_ok = ae.feasible_edges(self.g, lookup)
        self._reach: Optional[Set[int]] = None

    # ------------------------------------------------------------ reachability
    def reachable(self) -> Set[int]:
        if self._reach is None:
            seen = {self.g.entry}
            work = [self.g.entry]
            while work:
                a = work.pop()
                for (b, l) in self.g.succ[a]:
                    if b not in seen and self.edge_ok(a, b, l):
                        seen.add(b)
                        work.append(b)
            self._reach = seen
        return self._reach

    def path_avoiding(self, target: int, avoid: Callable[[int], bool]) -> Optional[List[int]]:
        """A feasible path entry -> target that visits no node for which avoid() holds."""
        return self.g.find_path([self.g.entry], lambda x: x == target, blocked=avoid,
                                edge_ok=self.edge_ok)

    # -------------------------------------------------------------- definitions
    def defs(self, name: str, at: int) -> Set[Optional[int]]:
        """Ids of the definitions of `name` reaching `at` on feasible paths; None
        stands for 'no definition in this function on some path' (value at entry)."""
        g = self.g
        def_at: Dict[int, List[int]] = {}
        for d in self.du.defs:
            if d.name == name:
                def_at.setdefault(d.node, []).append(d.id)
        seen = {(g.entry, None)}
        work: List[Tuple[int, Optional[int]]] = [(g.entry, None)]
        out: Set[Optional[int]] = set()
        while work:
            node, cur = work.pop()
            if node == at:
                out.add(cur)          # the definition in force before `at` executes
            nxt = def_at[node][-1] if node in def_at else cur
            for (b, l) in g.succ[node]:
                if not self.edge_ok(node, b, l) or (b, nxt) in seen:
                    continue
                seen.add((b, nxt))
                work.append((b, nxt))
        return out

    def unique_def(self, name: str, at: int) -> Optional[Def]:
        ds = self.defs(name, at)
        if len(ds) == 1:
            i = next(iter(ds))
            return None if i is None else self.du.defs[i]
        return None

    def value(self, e: ast.AST, at: int, depth: int = 8) -> Tuple[ast.AST, int]:
        """Follow plain local names through their unique feasible definition."""
        while isinstance(e, ast.Name) and depth > 0:
            d = self.unique_def(e.id, at)
            if d is None or d.value is None or d.sel or d.node == at:
                break
            e, at = d.value, d.node
            depth -= 1
        return e, at

    # -------------------------------------------------------------------- forms
    def form(self, e: ast.AST, at: int, leaf: Callable[[ast.AST, int], Optional[Poly]],
             depth: int = 8) -> Optional[Poly]:
        def res(x):
            r = leaf(x, at)
            if r is not None:
                return r
            if isinstance(x, ast.Name) and isinstance(x.ctx, ast.Load) and depth > 0:
                ds = self.defs(x.id, at)
                if len(ds) != 1 or None in ds:
                    return None
                d = self.du.defs[next(iter(ds))]
                if d.value is None or d.sel or d.node == at:
                    return None
                return self.form(d.value, d.node, leaf, depth - 1)
            return None
        return eval_form(e, res)


def sign_decider(subject: Callable[[ast.AST], bool], sign: str) -> Callable[[ast.AST], Optional[bool]]:
    """Decide comparisons `subject <op> 0` for a subject of known sign
    ('neg' | 'zero' | 'pos').  Anything else stays open."""
    val = {"neg": -1, "zero": 0, "pos": 1}[sign]

    def is_zero(e):
        if isinstance(e, ast.UnaryOp) and isinstance(e.op, (ast.USub, ast.UAdd)):
            e = e.operand
        return isinstance(e, ast.Constant) and not isinstance(e.value, bool) \
            and isinstance(e.value, (int, float)) and e.value == 0

    def decide(e):
        if not (isinstance(e, ast.Compare) and len(e.ops) == 1):
            return None
        a, b, op = e.left, e.comparators[0], e.ops[0]
        if subject(a) and is_zero(b):
            v = val
        elif subject(b) and is_zero(a):
            v = -val
        else:
            return None
        table = {ast.Eq: v == 0, ast.NotEq: v != 0, ast.Lt: v < 0, ast.LtE: v <= 0,
                 ast.Gt: v > 0, ast.GtE: v >= 0}
        return table.get(type(op))
    return decide


def none_decider(subject: Callable[[ast.AST], bool], is_none: bool) -> Callable[[ast.AST], Optional[bool]]:
    """Decide `subject is None` / `is not None` / `== None` / `!= None`."""
    def decide(e):
        if not (isinstance(e, ast.Compare) and len(e.ops) == 1):
            return None
        a, b, op = e.left, e.comparators[0], e.ops[0]
        none_b = isinstance(b, ast.Constant) and b.value is None
        none_a = isinstance(a, ast.Constant) and a.value is None
        if not ((subject(a) and none_b) or (subject(b) and none_a)):
            return None
        if isinstance(op, (ast.Is, ast.Eq)):
            return is_none
        if isinstance(op, (ast.IsNot, ast.NotEq)):
            return not is_none
        return None
    return decide


def order_decider(left: Callable[[ast.AST], bool], right: Callable[[ast.AST], bool],
                  rel: str) -> Callable[[ast.AST], Optional[bool]]:
    """Decide comparisons between two subjects whose order is known:
    rel in 'lt' | 'eq' | 'gt' means left <rel> right."""
    v = {"lt": -1, "eq": 0, "gt": 1}[rel]

    def decide(e):
        if not (isinstance(e, ast.Compare) and len(e.ops) == 1):
            return None
        a, b, op = e.left, e.comparators[0], e.ops[0]
        if left(a) and right(b):
            w = v
        elif left(b) and right(a):
            w = -v
        else:
            return None
        table = {ast.Eq: w == 0, ast.NotEq: w != 0, ast.Lt: w < 0, ast.LtE: w <= 0,
                 ast.Gt: w > 0, ast.GtE: w >= 0}
        return table.get(type(op))
    return decide


def any_of(*deciders) -> Callable[[ast.AST], Optional[bool]]:
    def decide(e):
        for d in deciders:
            r = d(e)
            if r is not None:
                return r
        return None
    return decide


# ------------------------------------------------------------------ facts from guards
def atomic_facts(t: ast.AST, outcome: bool) -> List[Tuple[ast.AST, bool]]:
    """Atomic conditions implied by test t having the given outcome."""
    if isinstance(t, ast.UnaryOp) and isinstance(t.op, ast.Not):
        return atomic_facts(t.operand, not outcome)
    if isinstance(t, ast.BoolOp):
        if isinstance(t.op, ast.And) and outcome:
            return [f for v in t.values for f in atomic_facts(v, True)]
        if isinstance(t.op, ast.Or) and not outcome:
            return [f for v in t.values for f in atomic_facts(v, False)]
        return []
    return [(t, outcome)]


_ORDERINGS = {ast.Lt: {"lt"}, ast.LtE: {"lt", "eq"}, ast.Gt: {"gt"}, ast.GtE: {"gt", "eq"},
              ast.Eq: {"eq"}, ast.NotEq: {"lt", "gt"}}


def _orderings(e: ast.AST, a: str, b: str) -> Optional[Set[str]]:
    """Set of orderings of (a, b) that satisfy comparison e, if e compares exactly a and b."""
    if not (isinstance(e, ast.Compare) and len(e.ops) == 1 and type(e.ops[0]) in _ORDERINGS):
        return None
    l_, r_ = norm(e.left), norm(e.comparators[0])
    sat = set(_ORDERINGS[type(e.ops[0])])
    if (l_, r_) == (a, b):
        return sat
    if (l_, r_) == (b, a):
        return {{"lt": "gt", "gt": "lt", "eq": "eq"}[x] for x in sat}
    return None


def fact_decider(du: DefUse, facts: List[Tuple[ast.AST, bool]], at: int):
    """Decide branch tests from conditions known to hold at node `at` (same normalised
    expression, its negation, or an order comparison of the same two operands), as long as
    every name in the condition still has the definitions it had at `at`."""
    def same_versions(f: ast.AST, nid: int) -> bool:
        for x in ast.walk(f):
            if isinstance(x, ast.Name) and isinstance(x.ctx, ast.Load):
                if {d.id for d in du.reaching(nid, x.id)} != {d.id for d in du.reaching(at, x.id)}:
                    return False
        return True

    def decide(nid: int, e: ast.AST) -> Optional[bool]:
        for (f, tv) in facts:
            if not same_versions(f, nid):
                continue
            if norm(e) == norm(f):
                return tv
            if isinstance(f, ast.Compare) and len(f.ops) == 1 and isinstance(e, ast.Compare):
                a, b = norm(f.left), norm(f.comparators[0])
                if isinstance(f.ops[0], (ast.Is, ast.IsNot)) and len(e.ops) == 1 and \
                        isinstance(e.ops[0], (ast.Is, ast.IsNot)) and \
                        (norm(e.left), norm(e.comparators[0])) == (a, b):
                    same = type(e.ops[0]) is type(f.ops[0])
                    return tv if same else (not tv)
                known = _orderings(f, a, b)
                asked = _orderings(e, a, b)
                if known is not None and asked is not None:
                    possible = known if tv else ({"lt", "eq", "gt"} - known)
                    if possible <= asked:
                        return True
                    if not (possible & asked):
                        return False
        return None
    return decide
