"""E4 reaching definitions / def-use on the statement CFG.

Tracked locations: local names and dotted attribute chains rooted at a local
name that are stored as a whole (`self._step`, `a.b`).  A definition records
the value expression and how the target selects from it (tuple position,
iteration element, augmented update).
"""
from __future__ import annotations

import ast
from dataclasses import dataclass
from typing import Dict, FrozenSet, List, Optional, Set, Tuple

from .cfg import CFG, Node
from .model import Unit, dotted, walk_local


@dataclass(frozen=True)
class Def:
    id: int
    node: int                 # CFG node id (entry node for parameters)
    name: str
    value: Optional[ast.AST]  # expression the value comes from (None: parameter)
    sel: Tuple                # () plain; ('idx', i) tuple position; ('iter',) element of
                              # value; ('aug', op) augmented; ('with',) as-target;
                              # ('param',); ('exc',); ('def',) nested function; ('import',)
    stmt: Optional[ast.AST] = None


def _targets(t: ast.AST, value: Optional[ast.AST], sel: Tuple):
    """Yield (name, value, sel) for an assignment target."""
    if isinstance(t, ast.Name):
        yield t.id, value, sel
    elif isinstance(t, ast.Attribute):
        d = dotted(t)
        if d:
            yield d, value, sel
    elif isinstance(t, ast.Starred):
        yield from _targets(t.value, value, sel + (("star",),))
    elif isinstance(t, (ast.Tuple, ast.List)):
        for i, el in enumerate(t.elts):
            if isinstance(value, (ast.Tuple, ast.List)) and len(value.elts) == len(t.elts) \
                    and not sel:
                yield from _targets(el, value.elts[i], ())
            else:
                yield from _targets(el, value, sel + (("idx", i),))
    # subscript stores do not define a tracked location


class DefUse:
    def __init__(self, unit: Unit, cfg: Optional[CFG] = None):
        self.unit = unit
        self.cfg = cfg or CFG(unit.node, unit.body)
        self.defs: List[Def] = []
        self.gen: Dict[int, List[Def]] = {}
        self._collect()
        self._solve()
        self._normalise_indexing()

    # -------------------------------------------------------------- collect
    def _add(self, nid, name, value, sel, stmt=None):
        d = Def(len(self.defs), nid, name, value, sel, stmt)
        self.defs.append(d)
        self.gen.setdefault(nid, []).append(d)

    def _collect(self):
        g = self.cfg
        for p in self.unit.params:
            self._add(g.entry, p, None, (("param",),))
        for n in g.nodes:
            a = n.ast
            if n.kind == "stmt":
                if isinstance(a, ast.Assign):
                    for t in a.targets:
                        for name, v, sel in _targets(t, a.value, ()):
                            self._add(n.id, name, v, sel, a)
                elif isinstance(a, ast.AnnAssign) and a.value is not None:
                    for name, v, sel in _targets(a.target, a.value, ()):
                        self._add(n.id, name, v, sel, a)
                elif isinstance(a, ast.AugAssign):
                    for name, v, sel in _targets(a.target, a.value,
                                                 (("aug", type(a.op).__name__),)):
                        self._add(n.id, name, v, sel, a)
                elif isinstance(a, (ast.FunctionDef, ast.AsyncFunctionDef)):
                    self._add(n.id, a.name, a, (("def",),), a)
                elif isinstance(a, ast.ClassDef):
                    self._add(n.id, a.name, a, (("def",),), a)
                elif isinstance(a, (ast.Import, ast.ImportFrom)):
                    for al in a.names:
                        self._add(n.id, (al.asname or al.name).split(".")[0], None,
                                  (("import",),), a)
            elif n.kind == "iter":
                for name, v, sel in _targets(a.target, a.iter, (("iter",),)):
                    self._add(n.id, name, v, sel, a)
            elif n.kind == "with_enter":
                if a.optional_vars is not None:
                    for name, v, sel in _targets(a.optional_vars, a.context_expr,
                                                 (("with",),)):
                        self._add(n.id, name, v, sel, a)
            elif n.kind == "handler":
                st = n.stmt
                for h in getattr(st, "handlers", []):
                    if h.type is a and h.name:
                        self._add(n.id, h.name, h.type, (("exc",),), h)
            # walrus
            for x in n.walk():
                if isinstance(x, ast.NamedExpr) and isinstance(x.target, ast.Name):
                    self._add(n.id, x.target.id, x.value, ())

    def _normalise_indexing(self):
        """`t = f(x); a = t[0]; b = t[1]` is read like `a, b = f(x)`: a plain definition whose
        value is a constant index into a local that has one plain reaching definition (a call
        or a tuple / list display) becomes position i of that value.  Rules that tell the
        pre- from the post-control, or the first from the second half-step propagator, by
        the position in the returned tuple see the same thing in both spellings."""
        changed = True
        rounds = 0
        while changed and rounds < 3:
            changed = False
            rounds += 1
            for i, d in enumerate(self.defs):
                v = d.value
                if d.sel or not (isinstance(v, ast.Subscript) and isinstance(v.value, ast.Name)
                                 and isinstance(v.slice, ast.Constant)
                                 and isinstance(v.slice.value, int) and v.slice.value >= 0):
                    continue
                src = [self.defs[j] for j in self.IN.get(d.node, ()) if self.defs[j].name == v.value.id]
                if len(src) != 1 or src[0].value is None or src[0].node == d.node:
                    continue
                s0 = src[0]
                if s0.sel:
                    continue
                if isinstance(s0.value, (ast.Tuple, ast.List)):
                    if v.slice.value < len(s0.value.elts):
                        self._replace(i, Def(d.id, d.node, d.name, s0.value.elts[v.slice.value], (), d.stmt))
                        changed = True
                elif isinstance(s0.value, ast.Call):
                    self._replace(i, Def(d.id, d.node, d.name, s0.value, (("idx", v.slice.value),), d.stmt))
                    changed = True

    def _replace(self, i: int, new: "Def") -> None:
        old = self.defs[i]
        self.defs[i] = new
        g = self.gen.get(old.node, [])
        for k, x in enumerate(g):
            if x.id == old.id:
                g[k] = new

    # ---------------------------------------------------------------- solve
    def _solve(self):
        g = self.cfg
        by_name: Dict[str, Set[int]] = {}
        for d in self.defs:
            by_name.setdefault(d.name, set()).add(d.id)
        self.by_name = by_name
        IN: Dict[int, FrozenSet[int]] = {n.id: frozenset() for n in g.nodes}
        OUT: Dict[int, FrozenSet[int]] = {n.id: frozenset() for n in g.nodes}
        work = [n.id for n in g.nodes]
        inwork = set(work)
        while work:
            nid = work.pop()
            inwork.discard(nid)
            preds = g.pred[nid]
            new_in = frozenset().union(*(OUT[p] for p, _ in preds)) if preds else frozenset()
            gens = self.gen.get(nid, [])
            if gens:
                killed_names = {d.name for d in gens if not (d.sel and d.sel[0][0] == "aug")}
                # a store to `a` also invalidates tracked `a.b`
                kill = set()
                for nm in killed_names:
                    kill |= by_name.get(nm, set())
                    for other in by_name:
                        if other.startswith(nm + "."):
                            kill |= by_name[other]
                new_out = frozenset((new_in - kill) | {d.id for d in gens})
            else:
                new_out = new_in
            IN[nid] = new_in
            if new_out != OUT[nid]:
                OUT[nid] = new_out
                for (s, _) in g.succ[nid]:
                    if s not in inwork:
                        inwork.add(s)
                        work.append(s)
        self.IN, self.OUT = IN, OUT

    # -------------------------------------------------------------- queries
    def reaching(self, nid: int, name: str) -> List[Def]:
        ids = self.by_name.get(name, set())
        return [self.defs[i] for i in sorted(self.IN[nid] & ids)]

    def unique_value(self, nid: int, name: str) -> Optional[Def]:
        ds = self.reaching(nid, name)
        if len(ds) == 1:
            return ds[0]
        return None

    def node_of(self, target: ast.AST) -> Optional[int]:
        """CFG node (first, non-copy) at which AST node `target` is evaluated."""
        if not hasattr(self, "_owner"):
            self._owner = {}
            for n in self.cfg.nodes:
                if n.copy_of:
                    continue
                for x in n.walk():
                    self._owner.setdefault(id(x), n.id)
        return self._owner.get(id(target))

    def nodes_of(self, target: ast.AST) -> List[int]:
        out = []
        for n in self.cfg.nodes:
            for x in n.walk():
                if x is target:
                    out.append(n.id)
                    break
        return out

    def uses(self, d: Def) -> List[Tuple[int, ast.AST]]:
        """(node id, Name/Attribute node) pairs that may read definition d."""
        out = []
        for n in self.cfg.nodes:
            if d.id not in self.IN[n.id]:
                continue
            for x in n.walk():
                if isinstance(x, (ast.Name, ast.Attribute)) and \
                        isinstance(getattr(x, "ctx", None), ast.Load) and dotted(x) == d.name:
                    out.append((n.id, x))
        return out


def maximal_chains(e: ast.AST):
    """Maximal Name/Attribute chains read in `e` (a.b.c is reported once, not
    also as a.b and a); nested scopes are not entered."""
    stack = [e]
    first = True
    while stack:
        n = stack.pop()
        if isinstance(n, (ast.Name, ast.Attribute)) and dotted(n) is not None:
            if isinstance(getattr(n, "ctx", None), ast.Load):
                yield n
            continue
        if isinstance(n, (ast.FunctionDef, ast.AsyncFunctionDef, ast.Lambda, ast.ClassDef)) \
                and not first:
            continue
        first = False
        stack.extend(reversed(list(ast.iter_child_nodes(n))))


def _split_calls(expr: ast.AST, call_filter):
    """If `expr` contains a call the filter understands, return the list of
    sub-expressions that together determine expr's value (the call replaced by
    the arguments that matter); else None."""
    target = None
    for x in walk_local(expr):
        if isinstance(x, ast.Call):
            r = call_filter(x)
            if r is not None:
                target = (x, r)
                break
    if target is None:
        return None
    call, relevant = target
    parts = list(relevant)
    # everything in expr outside that call still counts
    class Strip(ast.NodeTransformer):
        def visit_Call(self, node):
            if node is call:
                return ast.Constant(value=0)
            return self.generic_visit(node)
    import copy
    # identity is lost by deepcopy, so strip on the original via a shallow rebuild
    def rebuild(n):
        if n is call:
            return ast.Constant(value=0)
        if not isinstance(n, ast.AST):
            return n
        new = copy.copy(n)
        for f, v in ast.iter_fields(n):
            if isinstance(v, list):
                setattr(new, f, [rebuild(i) for i in v])
            elif isinstance(v, ast.AST):
                setattr(new, f, rebuild(v))
        return new
    if expr is not call:
        parts.append(rebuild(expr))
    return parts


def names_loaded(e: ast.AST) -> Set[str]:
    out = set()
    for x in walk_local(e):
        if isinstance(x, ast.Name) and isinstance(x.ctx, ast.Load):
            out.add(x.id)
    return out


def depends_on(du: DefUse, expr: ast.AST, at: int, sources: Set[str],
               _seen: Optional[Set] = None, through_attrs: bool = True,
               call_filter=None) -> bool:
    """Does the value of `expr` evaluated at CFG node `at` data-depend on any
    of the named locations (parameters, names, dotted chains)?  Follows local
    definitions transitively (flow-sensitive)."""
    seen = _seen if _seen is not None else set()
    if call_filter is not None:
        # calls the filter understands contribute only the sub-expressions it names
        parts = _split_calls(expr, call_filter)
        if parts is not None:
            return any(depends_on(du, pexpr, at, sources, seen, through_attrs, call_filter)
                       for pexpr in parts)
    for x in maximal_chains(expr):
        if True:
            d = dotted(x)
            if d is None:
                continue
            if d in sources:
                return True
            # prefix match: reading a.b.c depends on source a.b
            for s in sources:
                if d.startswith(s + ".") or (through_attrs and s.startswith(d + ".")):
                    return True
            if isinstance(x, ast.Name) or d in du.by_name:
                for df in du.reaching(at, d):
                    if (df.id) in seen:
                        continue
                    seen.add(df.id)
                    if df.value is None:
                        continue
                    if depends_on(du, df.value, df.node, sources, seen, through_attrs,
                                  call_filter):
                        return True
                    if df.sel and df.sel[0][0] == "aug":
                        # x += v depends on previous x too
                        for prev in du.reaching(df.node, d):
                            if prev.id not in seen and prev.value is not None:
                                seen.add(prev.id)
                                if depends_on(du, prev.value, prev.node, sources, seen,
                                              through_attrs, call_filter):
                                    return True
    return False


def expand(du: DefUse, nid: int, expr: ast.AST, depth: int = 4,
           stop_names: Optional[Set[str]] = None) -> ast.AST:
    """Copy of `expr` in which local names with a unique, plain reaching
    definition are replaced by their defining expression (hoisting a
    sub-expression into a temporary must not change a verdict)."""
    import copy

    class T(ast.NodeTransformer):
        def __init__(self, nid, depth):
            self.nid, self.depth = nid, depth

        def visit_Name(self, node):
            if not isinstance(node.ctx, ast.Load) or self.depth <= 0:
                return node
            if stop_names and node.id in stop_names:
                return node
            d = du.unique_value(self.nid, node.id)
            if d is None or d.value is None or d.sel or \
                    isinstance(d.value, (ast.FunctionDef, ast.ClassDef, ast.Lambda)):
                return node
            if d.node == self.nid:
                return node
            sub = copy.deepcopy(d.value)
            return T(d.node, self.depth - 1).visit(sub)

        def visit_Lambda(self, node):
            return node

    return T(nid, depth).visit(copy.deepcopy(expr))


def form_at(du: DefUse, nid: int, e: ast.AST, leaf, depth: int = 5):
    """Polynomial form of `e` evaluated at CFG node `nid`.  `leaf(x)` maps role
    names / understood calls to forms (tried first); remaining local names are
    followed through their unique plain reaching definition."""
    from .forms import eval_form

    def res(x):
        r = leaf(x)
        if r is not None:
            return r
        if isinstance(x, ast.Name) and isinstance(x.ctx, ast.Load) and depth > 0:
            d = du.unique_value(nid, x.id)
            if d is not None and d.value is not None and not d.sel and d.node != nid \
                    and not isinstance(d.value, (ast.FunctionDef, ast.ClassDef, ast.Lambda)):
                return form_at(du, d.node, d.value, leaf, depth - 1)
            # several plain definitions that all have the same form (dt_ = dt / dt_ = pt.dt)
            ds = du.reaching(nid, x.id)
            if len(ds) > 1 and all(dd.value is not None and not dd.sel and dd.node != nid
                                   and not isinstance(dd.value, (ast.FunctionDef, ast.ClassDef,
                                                                 ast.Lambda)) for dd in ds):
                forms = [form_at(du, dd.node, dd.value, leaf, depth - 1) for dd in ds]
                if all(f is not None for f in forms) and len({repr(f) for f in forms}) == 1:
                    return forms[0]
        return None
    return eval_form(e, res)


# ---------------------------------------------------------------------------
# origin: a name-independent rendering of a local value
def origin(du: DefUse, nid: int, expr: ast.AST, depth: int = 6) -> ast.AST:
    """Copy of `expr` in which every *local* name is replaced by where its value comes from,
    so that the result mentions only parameters, attributes, globals and calls:

      plain unique definition        -> the defining expression (recursively)
      loop / comprehension variable  -> ELEM(<iterable>); for enumerate(X): INDEX(X) / ELEM(X);
                                        for zip(A, B, ..): ELEM(A), ELEM(B), ..
      tuple-unpacking position k     -> ITEM_k(<value>)
      `with ... as x`                -> ENTER(<context expression>)
      several plain definitions      -> PHI(<origins, sorted by text>)

    Renaming locals or hoisting sub-expressions into temporaries leaves the result unchanged.
    Parameters keep their names (they are part of the API)."""
    import copy

    def call(fn, *args):
        return ast.Call(func=ast.Name(id=fn, ctx=ast.Load()), args=list(args), keywords=[])

    def of_def(d: Def, k: int) -> Optional[ast.AST]:
        if d.value is None or isinstance(d.value, (ast.FunctionDef, ast.ClassDef, ast.Lambda)):
            return None
        sel = list(d.sel)
        if not sel:
            return T(d.node, k - 1).visit(copy.deepcopy(d.value))
        if sel[0] == ("iter",):
            # the iterable in origin form, order-only wrappers peeled off
            # (list(..), tuple(..), reversed(..), [::-1] keep the pairing of index and element)
            it = T(d.node, k - 1).visit(copy.deepcopy(d.value))
            if isinstance(it, ast.Call) and isinstance(it.func, ast.Name) and it.func.id == "PHI":
                alts = {ast.unparse(_peel(a)): _peel(a) for a in it.args}
                if len(alts) == 1:
                    it = next(iter(alts.values()))
            it = _peel(it)
            idx = [s[1] for s in sel[1:] if s[0] == "idx"]
            fn = dotted(it.func) if isinstance(it, ast.Call) else None
            if fn == "enumerate" and it.args and idx:
                base = it.args[0]
                out = call("INDEX", base) if idx[0] == 0 else call("ELEM", base)
                for j in idx[1:]:
                    out = call(f"ITEM_{j}", out)
                return out
            if fn == "zip" and idx and idx[0] < len(it.args):
                out = call("ELEM", it.args[idx[0]])
                for j in idx[1:]:
                    out = call(f"ITEM_{j}", out)
                return out
            out = call("ELEM", it)
            for j in idx:
                out = call(f"ITEM_{j}", out)
            return out
        if sel[0][0] == "idx":
            out = T(d.node, k - 1).visit(copy.deepcopy(d.value))
            for s in sel:
                if s[0] == "idx":
                    out = call(f"ITEM_{s[1]}", out)
                else:
                    return None
            return out
        if sel[0] == ("with",):
            return call("ENTER", T(d.node, k - 1).visit(copy.deepcopy(d.value)))
        return None

    def _peel(it):
        while True:
            if isinstance(it, ast.Call) and dotted(it.func) in ("list", "tuple", "reversed") \
                    and len(it.args) == 1 and not it.keywords:
                it = it.args[0]
            elif isinstance(it, ast.Subscript) and isinstance(it.slice, ast.Slice) \
                    and it.slice.lower is None and it.slice.upper is None:
                it = it.value
            else:
                return it

    class T(ast.NodeTransformer):
        def __init__(self, at, k):
            self.at, self.k = at, k

        def visit_Name(self, node):
            if not isinstance(node.ctx, ast.Load) or self.k <= 0:
                return node
            ds = [d for d in du.reaching(self.at, node.id)]
            if not ds or any(d.sel == (("param",),) or d.sel == (("import",),) for d in ds):
                return node
            ds = [d for d in ds if d.node != self.at or d.sel]
            outs = []
            for d in ds:
                o = of_def(d, self.k)
                if o is None:
                    return node
                outs.append(o)
            if not outs:
                return node
            texts = sorted({ast.unparse(o): o for o in outs}.items())
            if len(texts) == 1:
                return texts[0][1]
            return call("PHI", *[o for _, o in texts])

        def visit_Lambda(self, node):
            return node

        def visit_ListComp(self, node):
            return node

        visit_SetComp = visit_DictComp = visit_GeneratorExp = visit_ListComp

    return T(nid, depth).visit(copy.deepcopy(expr))


def origin_text(du: DefUse, nid: int, expr: ast.AST, depth: int = 6) -> str:
    from .model import norm
    return norm(origin(du, nid, expr, depth))
