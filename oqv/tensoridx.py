"""Symbolic index calculus for small tensor expressions.

A value is a product of atomic tensors with named index slots plus the order of
its free (output) indices.  Understood operations: `.T`, `np.moveaxis`,
`np.swapaxes`, `np.transpose` (rank 2), `np.dot`, `@`, `np.tensordot`,
`np.einsum` with a literal spec.  The result can be compared with an expected
contraction ("axis 2 of the tensor with axis 1 of the matrix, the matrix's
axis 0 takes its place") whatever spelling produced it.
"""
from __future__ import annotations

import ast
import itertools
from typing import Callable, Dict, List, Optional, Tuple

from .model import dotted

Slot = Tuple[str, int]          # (atom name, axis)


class Val:
    """out: list of slots (free indices, in order); pairs: contracted slot pairs."""

    def __init__(self, out: List[Slot], pairs=None):
        self.out = list(out)
        self.pairs = set(pairs or ())

    @staticmethod
    def atom(name: str, rank: int) -> "Val":
        return Val([(name, k) for k in range(rank)])

    def signature(self) -> Tuple[Tuple[Slot, ...], Tuple[Tuple[Slot, Slot], ...]]:
        return tuple(self.out), tuple(sorted(tuple(sorted(p)) for p in self.pairs))

    def __repr__(self):
        return f"out={self.out} contracted={sorted(tuple(sorted(p)) for p in self.pairs)}"


def _const_int(e: ast.AST) -> Optional[int]:
    if isinstance(e, ast.UnaryOp) and isinstance(e.op, ast.USub):
        v = _const_int(e.operand)
        return None if v is None else -v
    if isinstance(e, ast.Constant) and isinstance(e.value, int) and not isinstance(e.value, bool):
        return e.value
    return None


def _int_list(e: ast.AST) -> Optional[List[int]]:
    if isinstance(e, (ast.List, ast.Tuple)):
        vs = [_const_int(x) for x in e.elts]
        return None if any(v is None for v in vs) else vs
    v = _const_int(e)
    return None if v is None else [v]


def _contract(a: Val, b: Val, ax_a: List[int], ax_b: List[int]) -> Optional[Val]:
    try:
        sa = [a.out[i] for i in ax_a]
        sb = [b.out[i] for i in ax_b]
    except IndexError:
        return None
    if len(sa) != len(sb):
        return None
    rest_a = [s for i, s in enumerate(a.out) if i not in [x % len(a.out) for x in ax_a]]
    rest_b = [s for i, s in enumerate(b.out) if i not in [x % len(b.out) for x in ax_b]]
    return Val(rest_a + rest_b, a.pairs | b.pairs | {frozenset(p) for p in zip(sa, sb)})


def evaluate(e: ast.AST, atom: Callable[[ast.AST], Optional[Val]]) -> Optional[Val]:
    """Value of expression e; `atom(x)` resolves leaves (names, attributes) to values."""
    v = atom(e)
    if v is not None:
        return v
    if isinstance(e, ast.Attribute) and e.attr == "T":
        a = evaluate(e.value, atom)
        return None if a is None else Val(list(reversed(a.out)), a.pairs)
    if isinstance(e, ast.BinOp) and isinstance(e.op, ast.MatMult):
        a, b = evaluate(e.left, atom), evaluate(e.right, atom)
        if a is None or b is None or not a.out or not b.out:
            return None
        # numpy.matmul: last axis of a with the second-to-last axis of b (the only one of a vector)
        bx = 0 if len(b.out) == 1 else len(b.out) - 2
        return _contract(a, b, [len(a.out) - 1], [bx])
    if not isinstance(e, ast.Call):
        return None
    fn = (dotted(e.func) or "").split(".")[-1]
    args = list(e.args)
    kw = {k.arg: k.value for k in e.keywords if k.arg}
    if isinstance(e.func, ast.Attribute) and fn == "transpose" and not args \
            and dotted(e.func.value) not in ("np", "numpy"):
        a = evaluate(e.func.value, atom)
        return None if a is None else Val(list(reversed(a.out)), a.pairs)
    if fn == "transpose" and len(args) == 1:
        a = evaluate(args[0], atom)
        return None if a is None else Val(list(reversed(a.out)), a.pairs)
    if fn == "moveaxis" and len(args) == 3:
        a = evaluate(args[0], atom)
        src, dst = _int_list(args[1]), _int_list(args[2])
        if a is None or src is None or dst is None or len(src) != len(dst):
            return None
        n = len(a.out)
        src = [s % n for s in src]
        dst = [d % n for d in dst]
        order = [i for i in range(n) if i not in src]
        for d, s_ in sorted(zip(dst, src)):
            order.insert(d, s_)
        return Val([a.out[i] for i in order], a.pairs)
    if fn == "swapaxes" and len(args) == 3:
        a = evaluate(args[0], atom)
        i, j = _const_int(args[1]), _const_int(args[2])
        if a is None or i is None or j is None:
            return None
        out = list(a.out)
        out[i], out[j] = out[j], out[i]
        return Val(out, a.pairs)
    if fn in ("dot", "matmul") and len(args) == 2:
        a, b = evaluate(args[0], atom), evaluate(args[1], atom)
        if a is None or b is None or not a.out or not b.out:
            return None
        # numpy.dot: last axis of a with the second-to-last axis of b (the only axis of a vector)
        bx = 0 if len(b.out) == 1 else len(b.out) - 2
        r = _contract(a, b, [len(a.out) - 1], [bx])
        if r is None:
            return None
        # np.dot: a.out[:-1] + b.out without the contracted axis (already in that order)
        return r
    if fn == "tensordot" and len(args) >= 2:
        a, b = evaluate(args[0], atom), evaluate(args[1], atom)
        axes = kw.get("axes", args[2] if len(args) > 2 else None)
        if a is None or b is None:
            return None
        if axes is None:
            k = 2
            return _contract(a, b, list(range(len(a.out) - k, len(a.out))), list(range(k)))
        if _const_int(axes) is not None:
            k = _const_int(axes)
            return _contract(a, b, list(range(len(a.out) - k, len(a.out))), list(range(k)))
        if isinstance(axes, (ast.List, ast.Tuple)) and len(axes.elts) == 2:
            xa, xb = _int_list(axes.elts[0]), _int_list(axes.elts[1])
            if xa is None or xb is None:
                return None
            return _contract(a, b, [x % len(a.out) for x in xa], [x % len(b.out) for x in xb])
        return None
    if fn == "einsum" and args and isinstance(args[0], ast.Constant) and isinstance(args[0].value, str):
        spec = args[0].value.replace(" ", "")
        if "->" not in spec or "." in spec:
            return None
        ins, outs = spec.split("->")
        ins = ins.split(",")
        vals = [evaluate(x, atom) for x in args[1:]]
        if len(ins) != len(vals) or any(v is None for v in vals):
            return None
        letter_slots: Dict[str, List[Slot]] = {}
        pairs = set()
        for labels, v in zip(ins, vals):
            if len(labels) != len(v.out):
                return None
            pairs |= v.pairs
            for ch, slot in zip(labels, v.out):
                letter_slots.setdefault(ch, []).append(slot)
        out: List[Slot] = []
        for ch, slots in letter_slots.items():
            if ch in outs:
                if len(slots) != 1:
                    return None          # no batch / diagonal indices in this calculus
            else:
                if len(slots) != 2:
                    return None
                pairs.add(frozenset(slots))
        for ch in outs:
            if ch not in letter_slots:
                return None
            out.append(letter_slots[ch][0])
        return Val(out, pairs)
    return None
