"""Role-typed argument binding (C02 S3, C15 U2).

For every call whose callee resolves (by name for functions, by method name
for attribute calls) to package functions, an argument that carries a role
(DT, START, END, ...) must be bound to a parameter of the same role; and a
caller that itself owns a value of role R must forward it to a callee
parameter of role R (instead of silently using the callee's default).
Arguments and parameters without a role are never judged.
"""
from __future__ import annotations

import ast
import re
from typing import Dict, Iterable, List, Optional, Set, Tuple

from .model import Program, Unit, dotted, norm, walk_local

EXTRA_ROLES = {
    # `epsrel` denotes the SVD tolerance in the back ends but the quadrature tolerance in
    # system.get_propagators(.., epsrel): one role, so only a mix-up with another role is judged
    "EPSREL": {"epsrel", "_epsrel", "liouvillian_epsrel", "_liouvillian_epsrel"},
    "SUBDIV": {"subdiv_limit", "_subdiv_limit"},
    "DKMAX": {"dkmax", "_dkmax"},
}


CASTS = {"float", "int", "complex", "_check_time", "check_convert"}


def role_of_name(name: Optional[str]) -> Optional[str]:
    from . import roles
    if not name:
        return None
    l = name.split(".")[-1]
    if roles.DT_RE.search(l):
        return "DT"
    if l in roles.START_NAMES:
        return "START"
    if l in roles.END_NAMES:
        return "END"
    for r, names in EXTRA_ROLES.items():
        if l in names:
            return r
    return None


def arg_role(u: Unit, a: ast.AST, depth: int = 0) -> Optional[str]:
    """Role of an argument expression.  Attributes and parameters carry their role in their
    (API-level) name; a plain local takes the role of what it was assigned from
    (`k = self._parameters.dkmax` is a DKMAX whatever `k` is called) and only falls back to
    its own name when its definitions carry none."""
    d = dotted(a)
    if d is None:
        # value-preserving wrappers: float(end_time), _check_time(end_time), check_convert(x, ..)
        if isinstance(a, ast.Call) and a.args and dotted(a.func) in CASTS and depth < 3:
            return arg_role(u, a.args[0], depth + 1)
        return None
    if isinstance(a, ast.Name) and depth < 3:
        scope_params = set()
        sc = u
        while sc is not None:
            scope_params |= set(sc.params)
            sc = sc.parent
        if a.id not in scope_params:
            vals = [st.value for st in walk_local(u.node) if isinstance(st, ast.Assign)
                    and len(st.targets) == 1 and isinstance(st.targets[0], ast.Name)
                    and st.targets[0].id == a.id]
            rs = {arg_role(u, v, depth + 1) for v in vals}
            rs.discard(None)
            if len(rs) == 1:
                return rs.pop()
    return role_of_name(d)


def _candidates(prog: Program, u: Unit, c: ast.Call) -> List[Unit]:
    fn = dotted(c.func)
    out: List[Unit] = []
    if fn is None:
        return out
    if "." not in fn:
        # local closure?
        for v in prog.all_nested(u) + ([w for w in prog.all_nested(u.parent)] if u.parent else []):
            if v.name == fn:
                return [v]
        q = f"{u.module.short}:{fn}"
        if q in prog.units:
            return [prog.units[q]]
        tgt = u.module.imports.get(fn, "")
        if tgt.startswith("oqupy."):
            modname, _, obj = tgt.rpartition(".")
            short = modname[len("oqupy."):]
            if f"{short}:{obj}" in prog.units:
                return [prog.units[f"{short}:{obj}"]]
            ci = prog.classes.get(f"{short}:{obj}")
            if ci is not None:
                m = prog.find_method(ci, "__init__")
                return [m] if m else []
        ci = prog.resolve_class_name(u.module, fn)
        if ci is not None and (ci.module is u.module or fn in u.module.imports):
            m = prog.find_method(ci, "__init__")
            return [m] if m else []
        return out
    meth = fn.split(".")[-1]
    recv = fn.rsplit(".", 1)[0]
    if recv == "self":
        ci = prog.class_of_unit(u)
        m = prog.find_method(ci, meth) if ci else None
        return [m] if m else []
    head = recv.split(".")[0]
    if head in u.module.imports and not u.module.imports[head].startswith("oqupy"):
        return out    # numpy etc.
    if u.module.imports.get(head, "").startswith("oqupy") and recv.count(".") == 0:
        tgt = u.module.imports[head]
        short = tgt[len("oqupy."):] if tgt != "oqupy" else ""
        q = f"{short}:{meth}"
        return [prog.units[q]] if q in prog.units else []
    for ci in prog.classes.values():
        if meth in ci.methods and not meth.startswith("__"):
            out.append(ci.methods[meth])
    return out


def _bind(callee: Unit, c: ast.Call) -> Optional[Dict[str, ast.AST]]:
    params = [p for p in callee.params if p not in ("self", "cls")]
    a = callee.node.args
    if any(isinstance(x, ast.Starred) for x in c.args) or len(c.args) > len(params) and not a.vararg:
        return None
    bound: Dict[str, ast.AST] = {}
    for i, x in enumerate(c.args):
        if i < len(params):
            bound[params[i]] = x
    for k in c.keywords:
        if k.arg is None:
            bound["**"] = k.value
        elif k.arg in params or a.kwarg:
            bound[k.arg] = k.value
        else:
            return None
    return bound


def _expand_kwargs(u: Unit, v: ast.AST) -> Dict[str, ast.AST]:
    """`**name` where name is bound once to a dict literal in the function."""
    if not isinstance(v, ast.Name):
        return {}
    lits = [st.value for st in walk_local(u.node) if isinstance(st, ast.Assign)
            and any(isinstance(t, ast.Name) and t.id == v.id for t in st.targets)]
    if len(lits) == 1 and isinstance(lits[0], ast.Dict):
        return {k.value: val for k, val in zip(lits[0].keys, lits[0].values)
                if isinstance(k, ast.Constant)}
    return {}


def owned_roles(u: Unit, wanted: Set[str]) -> Dict[str, str]:
    """role -> expression text of a value of that role the caller owns
    (own parameter, or self attribute assigned in the class)."""
    out: Dict[str, str] = {}
    scope = u
    while scope is not None:
        for p in scope.params:
            r = role_of_name(p)
            if r in wanted:
                out.setdefault(r, p)
        scope = scope.parent
    for x in walk_local(u.node):
        if isinstance(x, ast.Attribute) and dotted(x) and dotted(x).startswith("self."):
            r = role_of_name(dotted(x))
            if r in wanted:
                out.setdefault(r, dotted(x))
    return out


def check(prog: Program, chk, rule: str, wanted: Set[str], require_forward: Set[str],
          skip_units: Iterable[str] = ()) -> int:
    n = 0
    for u in prog.units.values():
        if isinstance(u.node, ast.Lambda) or u.qual in skip_units:
            continue
        owned = None
        for c in walk_local(u.node):
            if not isinstance(c, ast.Call):
                continue
            cands = [m for m in _candidates(prog, u, c) if m is not None]
            if not cands:
                continue
            verdicts = []
            for callee in cands:
                b = _bind(callee, c)
                if b is None:
                    continue
                if "**" in b:
                    b.update(_expand_kwargs(u, b.pop("**")))
                mism = []
                judged = 0
                for p, a in b.items():
                    rp = role_of_name(p)
                    ra = arg_role(u, a)
                    if rp in wanted and ra is not None and ra in wanted | {"DT", "START", "END"}:
                        judged += 1
                        if ra != rp:
                            mism.append(f"{norm(a)} ({ra}) -> parameter `{p}` ({rp})")
                    elif ra in wanted and rp is not None and rp != ra:
                        judged += 1
                        mism.append(f"{norm(a)} ({ra}) -> parameter `{p}` ({rp})")
                missing = []
                for p in callee.params:
                    rp = role_of_name(p)
                    if rp in require_forward and p not in b:
                        if owned is None:
                            owned = owned_roles(u, wanted)
                        if rp in owned and _has_default(callee, p):
                            missing.append(f"`{p}` not forwarded although the caller owns "
                                           f"`{owned[rp]}`")
                            judged += 1
                verdicts.append((callee, judged, mism, missing))
            if not verdicts or all(j == 0 for (_, j, _, _) in verdicts):
                continue
            n += 1
            bad = [v for v in verdicts if v[2] or v[3]]
            ok = len(bad) < len(verdicts) or not bad
            callee_names = sorted({v[0].qual for v in verdicts})
            if ok:
                chk.add(rule, u, f"{norm(c.func)}(...) roles", True,
                        f"role-typed arguments agree with {callee_names[:3]}", c)
            else:
                v = bad[0]
                chk.add(rule, u, f"{norm(c.func)}(...) roles", False,
                        "; ".join(v[2] + v[3]) + f" [callee {v[0].qual}]", c)
    return n


def _has_default(callee: Unit, p: str) -> bool:
    a = callee.node.args
    pos = a.posonlyargs + a.args
    defaults = {x.arg for x in pos[len(pos) - len(a.defaults):]}
    defaults |= {x.arg for x, d in zip(a.kwonlyargs, a.kw_defaults) if d is not None}
    return p in defaults
