"""Small AST helpers shared by the rules."""
from __future__ import annotations

import ast
from typing import Iterator, List, Optional, Tuple

from .model import dotted, norm, walk_local


def call_name(c: ast.AST) -> Optional[str]:
    if isinstance(c, ast.Call):
        return dotted(c.func)
    return None


def method_call(c: ast.AST) -> Optional[Tuple[str, str]]:
    """('recv.dotted', 'method') for calls of the form recv.method(...)."""
    if isinstance(c, ast.Call) and isinstance(c.func, ast.Attribute):
        r = dotted(c.func.value)
        if r is not None:
            return r, c.func.attr
    return None


def kwarg(c: ast.Call, name: str) -> Optional[ast.AST]:
    for k in c.keywords:
        if k.arg == name:
            return k.value
    return None


def arg_of(c: ast.Call, pos: int, name: str) -> Optional[ast.AST]:
    """Argument bound to positional slot `pos` / keyword `name`."""
    v = kwarg(c, name)
    if v is not None:
        return v
    if pos is not None and pos < len(c.args) and \
            not any(isinstance(a, ast.Starred) for a in c.args[:pos + 1]):
        return c.args[pos]
    return None


def bind_args(c: ast.Call, params: List[str]) -> dict:
    """Bind call arguments to parameter names (no *args/**kwargs support:
    those are returned under '*' / '**')."""
    out = {}
    for i, a in enumerate(c.args):
        if isinstance(a, ast.Starred):
            out["*"] = a
            break
        if i < len(params):
            out[params[i]] = a
    for k in c.keywords:
        if k.arg is None:
            out["**"] = k.value
        else:
            out[k.arg] = k.value
    return out


def const_value(e: Optional[ast.AST]):
    if isinstance(e, ast.Constant):
        return e.value
    return None


def is_none(e: Optional[ast.AST]) -> bool:
    return isinstance(e, ast.Constant) and e.value is None


def strip_parens(e: ast.AST) -> ast.AST:
    return e


def contains(root: ast.AST, target: ast.AST) -> bool:
    for x in ast.walk(root):
        if x is target:
            return True
    return False


def enclosing_chain(root: ast.AST, target: ast.AST) -> List[ast.AST]:
    """Ancestors of `target` inside `root`, outermost first (excluding target)."""
    path: List[ast.AST] = []

    def rec(n) -> bool:
        if n is target:
            return True
        for ch in ast.iter_child_nodes(n):
            path.append(n)
            if rec(ch):
                return True
            path.pop()
        return False
    rec(root)
    return path


def stmts_under(node: ast.AST) -> Iterator[ast.stmt]:
    for x in walk_local(node):
        if isinstance(x, ast.stmt):
            yield x


def branch_context(root: ast.AST, target: ast.AST) -> List[Tuple[ast.AST, bool]]:
    """Enclosing `if`/`while` tests of `target` inside `root`, outermost first,
    as (test expression, True if target is in the body / False if in orelse).
    `elif` chains appear as nested Ifs in orelse, so an `elif` branch yields
    (first_test, False), (second_test, True)."""
    out: List[Tuple[ast.AST, bool]] = []

    def rec(n, ctx) -> bool:
        if n is target:
            out.extend(ctx)
            return True
        if isinstance(n, (ast.If, ast.While)):
            for ch in ast.iter_child_nodes(n.test):
                pass
            if contains(n.test, target):
                out.extend(ctx)
                return True
            for ch in n.body:
                if rec(ch, ctx + [(n.test, True)]):
                    return True
            for ch in n.orelse:
                if rec(ch, ctx + [(n.test, False)]):
                    return True
            return False
        if isinstance(n, ast.IfExp):
            if rec(n.test, ctx):
                return True
            if rec(n.body, ctx + [(n.test, True)]):
                return True
            if rec(n.orelse, ctx + [(n.test, False)]):
                return True
            return False
        for ch in ast.iter_child_nodes(n):
            if rec(ch, ctx):
                return True
        return False
    rec(root, [])
    # `if not c:` is the other arm of `if c:` - report the positive test
    norm_out = []
    for (t, br) in out:
        while isinstance(t, ast.UnaryOp) and isinstance(t.op, ast.Not):
            t, br = t.operand, not br
        norm_out.append((t, br))
    return norm_out
