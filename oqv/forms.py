"""E5(a) Laurent-polynomial forms over role symbols.

A form is a finite sum of monomials c * s1^p1 * s2^p2 ...  with rational c
and integer (possibly negative) powers.  Division is defined only by a single
monomial.  Anything outside + - * / unary-minus float() int-free casts is TOP
(None): the rule that asked must then treat the value as unknown.
"""
from __future__ import annotations

import ast
from fractions import Fraction
from typing import Callable, Dict, Optional, Tuple

Mono = Tuple[Tuple[str, int], ...]


class Poly:
    __slots__ = ("terms",)

    def __init__(self, terms: Optional[Dict[Mono, Fraction]] = None):
        self.terms: Dict[Mono, Fraction] = {}
        if terms:
            for m, c in terms.items():
                if c != 0:
                    self.terms[m] = Fraction(c)

    # constructors
    @staticmethod
    def const(c) -> "Poly":
        return Poly({(): Fraction(c)})

    @staticmethod
    def sym(name: str) -> "Poly":
        return Poly({((name, 1),): Fraction(1)})

    # algebra
    def __add__(self, o: "Poly") -> "Poly":
        t = dict(self.terms)
        for m, c in o.terms.items():
            t[m] = t.get(m, 0) + c
        return Poly(t)

    def __neg__(self) -> "Poly":
        return Poly({m: -c for m, c in self.terms.items()})

    def __sub__(self, o: "Poly") -> "Poly":
        return self + (-o)

    @staticmethod
    def _mul_mono(a: Mono, b: Mono) -> Mono:
        d = dict(a)
        for s, p in b:
            d[s] = d.get(s, 0) + p
        return tuple(sorted((s, p) for s, p in d.items() if p != 0))

    def __mul__(self, o: "Poly") -> "Poly":
        t: Dict[Mono, Fraction] = {}
        for m1, c1 in self.terms.items():
            for m2, c2 in o.terms.items():
                m = self._mul_mono(m1, m2)
                t[m] = t.get(m, 0) + c1 * c2
        return Poly(t)

    def div(self, o: "Poly") -> Optional["Poly"]:
        if len(o.terms) != 1:
            return None
        (m, c), = o.terms.items()
        inv = tuple((s, -p) for s, p in m)
        return self * Poly({inv: 1 / c})

    def __eq__(self, o) -> bool:
        return isinstance(o, Poly) and self.terms == o.terms

    def __hash__(self):
        return hash(tuple(sorted(self.terms.items())))

    # queries
    def coeff(self, **powers: int) -> Fraction:
        m = tuple(sorted((s, p) for s, p in powers.items() if p != 0))
        return self.terms.get(m, Fraction(0))

    def symbols(self):
        return {s for m in self.terms for s, _ in m}

    def is_const(self) -> bool:
        return all(m == () for m in self.terms)

    def const_value(self) -> Optional[Fraction]:
        if self.is_const():
            return self.terms.get((), Fraction(0))
        return None

    def subs(self, name: str, value: "Poly") -> Optional["Poly"]:
        out = Poly()
        for m, c in self.terms.items():
            term = Poly.const(c)
            for s, p in m:
                if s == name:
                    if p < 0:
                        inv = Poly.const(1).div(value)
                        if inv is None:
                            return None
                        for _ in range(-p):
                            term = term * inv
                    else:
                        for _ in range(p):
                            term = term * value
                else:
                    term = term * Poly({((s, p),): 1})
            out = out + term
        return out

    def __repr__(self) -> str:
        if not self.terms:
            return "0"
        parts = []
        for m, c in sorted(self.terms.items()):
            ms = "*".join(s if p == 1 else f"{s}^{p}" for s, p in m)
            if ms:
                parts.append(f"{c}*{ms}" if c != 1 else ms)
            else:
                parts.append(str(c))
        return " + ".join(parts)


Resolver = Callable[[ast.AST], Optional[Poly]]

TRANSPARENT_CALLS = {"float", "complex", "np.float64", "numpy.float64", "list", "tuple",
                     "np.asarray", "np.array"}


def eval_form(e: ast.AST, resolve: Resolver, opaque_ok: bool = False,
              _depth: int = 0) -> Optional[Poly]:
    """Form of expression `e`; `resolve` maps leaves (names, attribute chains,
    calls it understands) to forms or returns None."""
    if _depth > 60:
        return None
    r = resolve(e)
    if r is not None:
        return r
    if isinstance(e, ast.Constant):
        if isinstance(e.value, bool) or not isinstance(e.value, (int, float)):
            return None
        try:
            return Poly.const(Fraction(str(e.value)))
        except (ValueError, ZeroDivisionError):
            return None
    if isinstance(e, ast.UnaryOp):
        v = eval_form(e.operand, resolve, opaque_ok, _depth + 1)
        if v is None:
            return None
        if isinstance(e.op, ast.USub):
            return -v
        if isinstance(e.op, ast.UAdd):
            return v
        return None
    if isinstance(e, ast.BinOp):
        a = eval_form(e.left, resolve, opaque_ok, _depth + 1)
        b = eval_form(e.right, resolve, opaque_ok, _depth + 1)
        if a is None or b is None:
            return None
        if isinstance(e.op, ast.Add):
            return a + b
        if isinstance(e.op, ast.Sub):
            return a - b
        if isinstance(e.op, ast.Mult):
            return a * b
        if isinstance(e.op, ast.Div):
            return a.div(b)
        if isinstance(e.op, ast.Pow):
            k = b.const_value()
            if k is not None and k.denominator == 1 and 0 <= k <= 4:
                out = Poly.const(1)
                for _ in range(int(k)):
                    out = out * a
                return out
        return None
    if isinstance(e, ast.Call):
        from .model import dotted
        fn = dotted(e.func)
        if fn in TRANSPARENT_CALLS and len(e.args) == 1 and not e.keywords:
            return eval_form(e.args[0], resolve, opaque_ok, _depth + 1)
        return None
    return None
