#!/venv/bin/python
"""Developer tool: confirm an independent behaviour-preserving refactoring made in a scratch
worktree (patch.diff, equiv.py, equiv.before.txt, equiv.after.txt, NOTES.md) and report what
the 20 quick checks say about the refactored tree.

  1. patch.diff equals `git diff -- oqupy` of the worktree;
  2. equiv.py run on the refactored worktree reproduces equiv.after.txt, and run on a clean
     checkout of /repo's HEAD reproduces equiv.before.txt; the two files are identical;
  3. OQuPy's suite passes on the refactored worktree;
  4. every quick check is run against the worktree (`--repo <worktree>`): anything but exit 0
     is a false alarm (or an anchor that did not survive the refactoring).

usage: verify_refactoring.py <worktree> [--no-suite]      -> JSON on stdout
"""
import json
import os
import re
import shutil
import subprocess
import sys
import tempfile

HERE = os.path.dirname(os.path.dirname(os.path.abspath(__file__)))
PY = "/venv/bin/python"
wt = os.path.abspath(sys.argv[1])
no_suite = "--no-suite" in sys.argv
out = {"worktree": wt}


def run(cmd, cwd, env=None, timeout=3600):
    e = dict(os.environ)
    e.update(env or {})
    p = subprocess.run(cmd, cwd=cwd, capture_output=True, text=True, env=e, timeout=timeout)
    return p.returncode, p.stdout, p.stderr


rc, diff, _ = run(["git", "diff", "--", "oqupy"], wt)
patch = open(os.path.join(wt, "patch.diff")).read()
out["patch_matches_tree"] = diff.strip() == patch.strip()
out["changed_lines"] = sum(1 for l in patch.splitlines()
                           if (l.startswith("+") or l.startswith("-")) and not l.startswith(("+++", "---")))
# equivalence digest
rc, so, se = run([PY, "equiv.py"], wt, {"PYTHONPATH": wt}, timeout=1800)
after = open(os.path.join(wt, "equiv.after.txt")).read()
before = open(os.path.join(wt, "equiv.before.txt")).read()
out["equiv_after_reproduced"] = (rc == 0 and so.strip() == after.strip())
out["equiv_files_identical"] = before.strip() == after.strip()
clean = tempfile.mkdtemp(prefix="oqv_clean_")
try:
    subprocess.run(f"git -C /repo archive HEAD | tar -x -C {clean}", shell=True, check=True)
    shutil.copy(os.path.join(wt, "equiv.py"), os.path.join(clean, "equiv.py"))
    rc2, so2, se2 = run([PY, "equiv.py"], clean, {"PYTHONPATH": clean}, timeout=1800)
    out["equiv_before_reproduced"] = (rc2 == 0 and so2.strip() == before.strip())
    out["equiv_digest_lines"] = len(before.strip().splitlines())
finally:
    shutil.rmtree(clean, ignore_errors=True)
if not no_suite:
    rc, so, se = run([PY, "-m", "pytest", "-q", "-p", "no:cacheprovider", "--timeout=900", "-n", "8",
                      "--ignore", "tests/coverage/process_tensor_test.py", "tests"], wt, {"PYTHONPATH": wt})
    rc2, so2, se2 = run([PY, "-m", "pytest", "-q", "-p", "no:cacheprovider",
                         "tests/coverage/process_tensor_test.py"], wt, {"PYTHONPATH": wt})
    out["suite"] = {"exit": [rc, rc2], "summary": [so.strip().splitlines()[-1] if so.strip() else "",
                                                    so2.strip().splitlines()[-1] if so2.strip() else ""]}
checks = {}
claimed = sorted(f[:-3].upper() for f in os.listdir(os.path.join(HERE, "rules")) if re.fullmatch(r"c\d\d\.py", f))
for pid in claimed:
    rc, so, se = run([PY, os.path.join(HERE, "check"), pid, "--repo", wt, "--no-selftest"], HERE,
                     {"OQV_NO_EVIDENCE": "1", "OQV_REPLAY_DIR": tempfile.gettempdir()})
    if rc != 0:
        lines = [l.strip() for l in so.splitlines() if re.match(r"\s+oqupy|ANALYSIS-ERROR|NOTE", l)]
        checks[pid] = {"exit": rc, "lines": lines[:6]}
out["checks_not_silent"] = checks
print(json.dumps(out, indent=1))
