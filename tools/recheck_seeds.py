#!/venv/bin/python
"""Developer tool: for every kept seeded change, apply its patch to a scratch copy of
/repo's oqupy package (under $TMPDIR), run every quick check against the copy and record
which checks report which rules.  Updates caught_by / expect_rule in meta.json
(expect_rule keeps an existing entry if that rule is still among the reported ones).

usage: recheck_seeds.py [slug ...]        (default: all)
"""
import json
import os
import re
import shutil
import subprocess
import sys
import tempfile
from concurrent.futures import ThreadPoolExecutor

HERE = os.path.dirname(os.path.dirname(os.path.abspath(__file__)))
PY = "/venv/bin/python"
sys.path.insert(0, HERE)
CLAIMED = sorted(f[:-3].upper() for f in os.listdir(os.path.join(HERE, "rules"))
                 if re.fullmatch(r"c\d\d\.py", f))


def one(slug):
    d = os.path.join(HERE, "seeded", slug)
    meta = json.load(open(os.path.join(d, "meta.json")))
    scratch = tempfile.mkdtemp(prefix="oqv_seed_")
    try:
        shutil.copytree("/repo/oqupy", os.path.join(scratch, "oqupy"))
        p = subprocess.run(["patch", "-p1", "-s", "-i", os.path.join(d, "patch.diff")],
                           cwd=scratch, capture_output=True, text=True)
        if p.returncode != 0:
            return slug, None, f"patch does not apply: {p.stdout[-200:]}"
        env = dict(os.environ, OQV_NO_EVIDENCE="1", OQV_REPLAY_DIR=os.path.join(scratch, "replay"))
        caught = {}
        for pid in CLAIMED:
            r = subprocess.run([PY, os.path.join(HERE, "check"), pid, "--repo", scratch,
                                "--no-selftest"], capture_output=True, text=True, env=env)
            if r.returncode == 1:
                rules = re.findall(r"^\s+\S+:\d+: \[(\w+)\]", r.stdout, flags=re.M)
                caught[pid] = sorted(set(rules))
            elif r.returncode != 0:
                caught[pid] = ["<exit %d>" % r.returncode]
        return slug, (meta, caught), ""
    finally:
        shutil.rmtree(scratch, ignore_errors=True)


def main():
    slugs = sys.argv[1:] or sorted(x for x in os.listdir(os.path.join(HERE, "seeded"))
                                   if os.path.isdir(os.path.join(HERE, "seeded", x)))
    with ThreadPoolExecutor(max_workers=8) as ex:
        for slug, res, err in ex.map(one, slugs):
            if res is None:
                print(f"{slug}: {err}")
                continue
            meta, caught = res
            bad = {k: v for k, v in caught.items() if v and v[0].startswith("<exit")}
            good = {k: v for k, v in caught.items() if k not in bad}
            old = meta.get("expect_rule") or {}
            meta["caught_by"] = sorted(good, key=lambda k: (k != meta["property"], k))
            meta["expect_rule"] = {k: (old[k] if old.get(k) in v else v[0]) for k, v in good.items()}
            json.dump(meta, open(os.path.join(HERE, "seeded", slug, "meta.json"), "w"), indent=1)
            own = meta["property"] in good
            print(f"{slug}: {good}" + ("" if own else "   <-- NOT caught by its own property")
                  + (f"   ANALYSIS-ERROR in {bad}" if bad else ""))


if __name__ == "__main__":
    main()
