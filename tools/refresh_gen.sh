#!/bin/bash
# Developer helper: (re)create the generically rewritten copies of /repo/oqupy under /tmp/gen
# (quick targets for `./check CNN --repo /tmp/gen/<name> --no-selftest`).
for t in rename_locals flip_branches swap_comparisons reverse_kwargs hoist_arguments keyword_arguments inline_temporaries index_unpacking all_rewrites extract_blocks conditional_expressions default_first return_in_branches loops_to_comprehensions comprehensions_to_loops counter_updates; do
  rm -rf /tmp/gen/$t; mkdir -p /tmp/gen/$t; cp -r /repo/oqupy /tmp/gen/$t/
  /venv/bin/python -c "
import sys; sys.path.insert(0,'/verif')
from selftest import generic
generic.$t('/tmp/gen/$t')
"
done
