#!/venv/bin/python
"""Developer tool (not a registered check): confirm a seeded change and find
out which checks catch it.

usage: verify_seed.py <worktree dir> [--skip-suite]

1. demo.py fails with the change applied (worktree as left by the author)
2. OQuPy's suite passes with the change (xdist; process_tensor_test serially)
3. demo.py passes without the change
4. apply the patch to /repo, run every quick check with evidence writing off,
   undo straight afterwards (git checkout -- .)
Prints a JSON summary.
"""
import json
import os
import subprocess
import sys
import time

PY = "/venv/bin/python"
CLAIMED = ["C01", "C02", "C03", "C04", "C05", "C06", "C07", "C08", "C09", "C10", "C11", "C12", "C13",
           "C14", "C15", "C16", "C17", "C18", "C19", "C20"]


def sh(cmd, cwd=None, env=None, timeout=3600):
    p = subprocess.run(cmd, shell=True, cwd=cwd, env=env, capture_output=True, text=True,
                       timeout=timeout)
    return p.returncode, (p.stdout + p.stderr)


def main():
    wt = os.path.abspath(sys.argv[1])
    skip_suite = "--skip-suite" in sys.argv
    env = dict(os.environ, PYTHONPATH=wt)
    out = {"worktree": wt}
    patch = os.path.join(wt, "patch.diff")
    rc, cur = sh("git diff -- oqupy", cwd=wt)
    if not cur.strip():
        sh(f"git apply {patch}", cwd=wt)
        rc, cur = sh("git diff -- oqupy", cwd=wt)
    out["patch_matches_tree"] = cur.strip() == open(patch).read().strip()
    out["changed_lines"] = sum(1 for l in cur.splitlines()
                               if l[:1] in "+-" and not l.startswith(("+++", "---")))
    t0 = time.time()
    rc, o = sh(f"{PY} demo.py", cwd=wt, env=env, timeout=900)
    out["demo_with_change"] = {"exit": rc, "tail": o[-300:], "s": round(time.time() - t0, 1)}
    if not skip_suite:
        t0 = time.time()
        rc1, o1 = sh(f"{PY} -m pytest -q -p no:cacheprovider --timeout=900 -n 16 "
                     f"--ignore tests/coverage/process_tensor_test.py tests", cwd=wt, env=env)
        rc2, o2 = sh(f"{PY} -m pytest -q -p no:cacheprovider tests/coverage/process_tensor_test.py",
                     cwd=wt, env=env)
        out["suite_with_change"] = {"exit": [rc1, rc2], "summary": [o1.strip().splitlines()[-1],
                                                                     o2.strip().splitlines()[-1]],
                                    "s": round(time.time() - t0, 1)}
    sh(f"git apply -R {patch}", cwd=wt)
    rc, o = sh(f"{PY} demo.py", cwd=wt, env=env, timeout=900)
    out["demo_without_change"] = {"exit": rc, "tail": o[-200:]}
    sh(f"git apply {patch}", cwd=wt)
    # which checks catch it
    rc, o = sh("git status --porcelain", cwd="/repo")
    if o.strip():
        print("refusing: /repo is not clean")
        sys.exit(2)
    rc, o = sh(f"git apply {patch}", cwd="/repo")
    out["apply_to_repo"] = rc
    caught = {}
    try:
        if rc == 0:
            cenv = dict(os.environ, OQV_NO_EVIDENCE="1", OQV_REPLAY_DIR="/tmp/seed/_replay")
            for pid in CLAIMED:
                rc2, o2 = sh(f"{PY} /verif/check {pid}", cwd="/verif", env=cenv)
                if rc2 != 0:
                    lines = [l for l in o2.splitlines() if l.startswith("  oqupy") or
                             l.startswith("ANALYSIS-ERROR")]
                    caught[pid] = {"exit": rc2, "lines": lines[:6]}
    finally:
        sh("git checkout -- .", cwd="/repo")
    out["caught_by"] = caught
    print(json.dumps(out, indent=1))


if __name__ == "__main__":
    main()
