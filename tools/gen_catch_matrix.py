#!/venv/bin/python
"""Rewrite section 7.5 of DESIGN.md (between the markers) from seeded/*/meta.json and the
mutation registry, so that the record of which check catches which change cannot drift."""
import json
import os
import sys

HERE = os.path.dirname(os.path.dirname(os.path.abspath(__file__)))
sys.path.insert(0, HERE)
from selftest import mutations  # noqa: E402

BEGIN, END = "<!-- CATCH-MATRIX:BEGIN -->", "<!-- CATCH-MATRIX:END -->"
NOTES = {}
notes_file = os.path.join(HERE, "seeded", "HISTORY.json")
if os.path.exists(notes_file):
    NOTES = json.load(open(notes_file))


def main():
    lines = [BEGIN, "",
             "### 7.5 Which check catches which change", "",
             "**Independent seeded changes** (written by sub-agents that saw only the property "
             "text and a scratch worktree; each confirmed by me: the demonstration fails with the "
             "change and passes without it, OQuPy's 101 tests pass with it; kept under "
             "`seeded/<id>/`; all of them are re-applied to a scratch copy in every thorough run).",
             "",
             "| seeded change | breaks | what it needs to manifest | caught by (rule) | history |",
             "|---|---|---|---|---|"]
    root = os.path.join(HERE, "seeded")
    for d in sorted(os.listdir(root)):
        mp = os.path.join(root, d, "meta.json")
        if not os.path.exists(mp):
            continue
        m = json.load(open(mp))
        caught = ", ".join(f"{p} ({m['expect_rule'].get(p, '?')})" for p in m["caught_by"]) \
            or "**not caught**"
        hist = NOTES.get(d, "")
        lines.append(f"| `{d}`: {m['summary'][:230]} | {m['property']} | "
                     f"{m['needs_to_manifest'][:200]} | {caught} | {hist} |")
    lines += ["", "**Self-test variants** (selftest/mutations.py; one rule instance broken per "
              "variant on a scratch copy; `benign` = behaviour-preserving rewrite that must stay "
              "silent):", "", "| property | breaking variants (by expected rule) | benign |",
              "|---|---|---|"]
    pids = sorted(mutations._REG)
    for pid in pids:
        vs = mutations.variants(pid)
        by_rule = {}
        for v in vs:
            if v["kind"] == "break":
                by_rule[v["expect_rule"]] = by_rule.get(v["expect_rule"], 0) + 1
        ben = sum(1 for v in vs if v["kind"] == "benign")
        lines.append(f"| {pid} | " + ", ".join(f"{r}: {n}" for r, n in sorted(by_rule.items()))
                     + f" | {ben} |")
    tot_b = sum(1 for p in pids for v in mutations.variants(p) if v["kind"] == "break")
    tot_o = sum(1 for p in pids for v in mutations.variants(p) if v["kind"] == "benign")
    lines += ["", f"Totals: {tot_b} breaking and {tot_o} benign variants.", "", END]
    p = os.path.join(HERE, "DESIGN.md")
    s = open(p).read()
    block = "\n".join(lines)
    if BEGIN in s:
        s = s[:s.index(BEGIN)] + block + s[s.index(END) + len(END):]
    else:
        s = s.rstrip("\n") + "\n\n" + block + "\n"
    open(p, "w").write(s)
    print(f"catch matrix: {len([l for l in lines if l.startswith('| `')])} seeds, "
          f"{tot_b}+{tot_o} variants")


if __name__ == "__main__":
    main()
