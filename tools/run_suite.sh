#!/bin/bash
# Developer helper (not a registered check): run OQuPy's pinned suite quickly.
# process_tensor_test writes an HDF5 file at import time, so it cannot be
# collected by 16 xdist workers at once; it is run serially afterwards.
cd /repo || exit 2
/venv/bin/python -m pytest -q -p no:cacheprovider --timeout=900 -n 16 \
   --ignore tests/coverage/process_tensor_test.py "$@" 2>&1 | tail -15
/venv/bin/python -m pytest -q -p no:cacheprovider --timeout=900 \
   tests/coverage/process_tensor_test.py 2>&1 | tail -3
