#!/venv/bin/python
"""Developer tool: copy a confirmed seeded change from its scratch worktree into
/verif/seeded/<slug>/ (patch.diff, demo.py, NOTES.md, meta.json).

usage: store_seed.py <worktree> <slug> <property> <summary> <needs> <verify.json>
caught_by / expect_rule are filled in afterwards by tools/recheck_seeds.py.
"""
import json
import os
import shutil
import sys

wt, slug, pid, summary, needs, vj = sys.argv[1:7]
dst = os.path.join("/verif/seeded", slug)
os.makedirs(dst, exist_ok=True)
for f in ("patch.diff", "demo.py", "NOTES.md"):
    shutil.copy(os.path.join(wt, f), os.path.join(dst, f))
v = json.load(open(vj))
meta = {
    "property": pid,
    "summary": summary,
    "needs_to_manifest": needs,
    "author": f"independent sub-agent given only the property text and a scratch worktree "
              f"({wt}); nothing from /verif",
    "confirmed": {
        "what_i_ran": "tools/verify_seed.py: demo.py with the change (exit "
                      f"{v['demo_with_change']['exit']}), OQuPy suite with the change ("
                      f"{'; '.join(v['suite_with_change']['summary'])}), demo.py without the "
                      f"change (exit {v['demo_without_change']['exit']}), then `git -C /repo apply "
                      "patch.diff`, all quick checks, `git -C /repo checkout -- .`",
        "changed_lines": v["changed_lines"],
    },
    "caught_by": [],
    "expect_rule": {},
}
json.dump(meta, open(os.path.join(dst, "meta.json"), "w"), indent=1)
print("stored", dst)
