#!/venv/bin/python
"""Developer tool: composition audit.  For every kept seeded change, apply its patch to a
scratch copy of /repo's oqupy package, then rewrite the whole copy with one of the generic
behaviour-preserving rewrites of selftest/generic.py (default: all_rewrites), and run the
quick check of the seed's own property against the result.  The seeded defect is still
there, only spelled differently (other local names, flipped branches, swapped comparisons,
reversed keywords, hoisted arguments) - the check must still report it (exit 1), and
preferably by the same rule as on the plain seeded tree.  Read-only: prints a table.

usage: recheck_seeds_rewritten.py [--rewrite NAME] [slug ...]
"""
import json
import os
import re
import shutil
import subprocess
import sys
import tempfile
from concurrent.futures import ThreadPoolExecutor

HERE = os.path.dirname(os.path.dirname(os.path.abspath(__file__)))
PY = "/venv/bin/python"
sys.path.insert(0, HERE)
from selftest import generic  # noqa: E402


def one(args):
    slug, rewrite = args
    d = os.path.join(HERE, "seeded", slug)
    meta = json.load(open(os.path.join(d, "meta.json")))
    pid = meta["property"]
    scratch = tempfile.mkdtemp(prefix="oqv_seedrw_")
    try:
        shutil.copytree("/repo/oqupy", os.path.join(scratch, "oqupy"))
        p = subprocess.run(["patch", "-p1", "-s", "-i", os.path.join(d, "patch.diff")],
                           cwd=scratch, capture_output=True, text=True)
        if p.returncode != 0:
            return slug, pid, None, "patch does not apply"
        try:
            getattr(generic, rewrite)(scratch)
        except Exception as e:                     # a rewrite that cannot handle the seeded text
            return slug, pid, None, f"rewrite failed: {type(e).__name__}: {e}"
        env = dict(os.environ, OQV_NO_EVIDENCE="1", OQV_REPLAY_DIR=os.path.join(scratch, "replay"))
        r = subprocess.run([PY, os.path.join(HERE, "check"), pid, "--repo", scratch,
                            "--no-selftest"], capture_output=True, text=True, env=env)
        rules = sorted(set(re.findall(r"^\s+\S+:\d+: \[(\w+)\]", r.stdout, flags=re.M)))
        return slug, pid, (r.returncode, rules, (meta.get("expect_rule") or {}).get(pid)), \
            (r.stdout + r.stderr)[-400:] if r.returncode not in (0, 1) else ""
    finally:
        shutil.rmtree(scratch, ignore_errors=True)


def main():
    argv = sys.argv[1:]
    rewrite = "all_rewrites"
    if argv[:1] == ["--rewrite"]:
        rewrite = argv[1]
        argv = argv[2:]
    slugs = argv or sorted(x for x in os.listdir(os.path.join(HERE, "seeded"))
                           if os.path.isdir(os.path.join(HERE, "seeded", x)))
    bad = 0
    with ThreadPoolExecutor(max_workers=12) as ex:
        for slug, pid, res, note in ex.map(one, [(s, rewrite) for s in slugs]):
            if res is None:
                print(f"{slug}: {note}")
                bad += 1
                continue
            rc, rules, expect = res
            verdict = "caught" if rc == 1 else ("MISSED" if rc == 0 else f"EXIT {rc}")
            same = "" if (expect in rules or rc != 1) else f"   (plain tree: {expect})"
            print(f"{slug}: {pid} {verdict} {rules}{same}" + (f"\n    {note}" if note else ""))
            bad += rc != 1
    print(f"{rewrite}: {len(slugs) - bad}/{len(slugs)} seeded changes still caught by their own property")
    return 1 if bad else 0


if __name__ == "__main__":
    sys.exit(main())
