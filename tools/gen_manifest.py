#!/venv/bin/python
"""Regenerate /verif/MANIFEST.json from the table below (single source of
truth for what is claimed).  Run after adding/removing a rule module."""
import json
import os

HERE = os.path.dirname(os.path.dirname(os.path.abspath(__file__)))

PY = "/venv/bin/python"

CLAIMS = {
    "C02": dict(
        technique="sibling agreement of call-site bindings by def-use origin; step-offset forms of propagator indices; role-typed argument binding; memo-key rule over the system classes including memos kept on self by the propagator closures; truthiness tests of numeric options",
        text="Decides that TEMPO and PT-TEMPO are wired to the same inputs at the same step indices (S1 influence arguments by origin, S2 propagator/step alignment, S3 role-typed plumbing, S4 dkmax/unique provenance, S5 both back ends fill every basis element of the dk=0 tensors from the reduced influence; S1 also: dk reaches influence_matrix unchanged). Numerical agreement of the two contractions is not decided. S7: no memo in the system classes leaves out of its key what the stored propagators were computed from (also the enclosing call's dt / start_time for a memo shared between closures). S8: numeric options are tested for 'not given' with `is None`, never for truthiness (0 is a value). S9: an option for which None is a setting of its own (subdiv_limit) reaches the propagators as given. S10: get_* methods of the process-tensor classes never write the stores their setters own.",
        note="Trusted: Python ast; def-use engine; role vocabulary (oqv/roles.py). Partial claim: wiring only.",
        ref="2/C02"),
    "C01": dict(
        technique="path-conditioned reaching definitions (sign of dk, None-ness of dkmax / add_correlation_time, order of step and dkmax decided per case) with Laurent-polynomial forms of the cell bounds, influence indices and split indices; keyword binding of every truncating call; corner rule of the closed-form cell integrals (affine forms of the eta arguments, helpers written out); cache-key completeness of the memoised double antiderivative under value equality",
        text="Claims C01 in part: the clause 'the memory settings have exactly their documented meaning' and the tolerance clause, as far as they are visible in the shape of the code - which grid cell of the autocorrelation function is integrated per separation and memory setting (N1), which separation enters the TEMPO / PT-TEMPO network at which step (N2), the tcut <-> dkmax conversion incl. nearest-integer rounding of tcut/dt (N3), every truncation uses the requested relative tolerance only (N4). Each is a necessary condition. Equality of the states with the analytic independent-boson solution or the explicit finite-mode evolution is not decided. N5: the closed-form coefficients evaluate the double antiderivative at the corners of the cells, not at rounded or clipped times. N6: correlations objects that differ in anything the integrand reads never share memoised coefficients. N7: both methods build the basis-change superoperators as left_right_super(U, U^dagger) / (U^dagger, U) (row-major vectorisation).",
        note="Trusted: Python ast; CFG/def-use engine; NodeArray.split/join argument order (index, far side first). Partial claim: structural necessary conditions only.",
        ref="7.2 (C01)"),
    "C03": dict(
        technique="sibling cross-check of the leg-role table of all PT-MPO consumers (edge-connection sites classified by the slots an edge is connected to / stored in); memo key / invalidation analysis; copy-vs-alias classification of setter stores, convention check of superoperator/cap application, guard presence, index-position discipline of the environment list; ownership analysis of in-place updates (reaching definitions plus return summaries of callees and closure factories); loop-exit analysis of the steppers (break in the last iteration vs running out of steps)",
        text="Claims C03 in part: structural necessary conditions - all five consumers of a PT-MPO tensor agree on (past bond, future bond, system in, system out) and on the rank-3 delta expansion (M1), one convention for applying system superoperators and caps (M2), input guards (M3), list position of a process tensor only selects its own bond leg / cap / MPO (M4), no getter serves a memoised tensor outdated by a setter (M5), setters store independent copies (M6), caps close rank-3 / rank-4 tensors with trace_square / (trace_in, trace_out) in both compute_caps (M7). Exactness against an independent joint evolution is not decided; an error shared by producer and all consumers is invisible to this cross-check. M9: the contraction code never updates in place an array it does not own (propagators, controls, tensors handed out by their owners). M10: the pre-measurement control of the last step lies on every path to the final record. M11: tensors are flattened for storage and restored in logical (C) order. M12: getters of the process-tensor classes are read-only with respect to the setter-owned stores.",
        note="Trusted: tensornetwork edge-connection semantics; numpy copy/alias table (np.array copies, np.asarray may not). Partial claim.",
        ref="7.2 (C03)"),
    "C04": dict(
        technique="algebraic shape checks: coefficient/operand form of every Lindblad dissipator, Kronecker-factor convention table of the superoperator builders, factor structure of the influence exponent, return-expression form of normalised read-outs; value-preservation analysis of the augmented MPS constructor; finite enumeration of the bond-matrix indices between recorded sites",
        text="Claims C04 in part: the clauses that hold by construction - trace-annihilating form of every dissipator construction site (D1), one (A (x) B^T) superoperator convention so that commutators annihilate the trace (D2), normalised read-outs (D3), and the factor structure of the influence exponent that gives trace preservation of the last-leg sum and I(s+,s-)* = I(s-,s+) (D4), one transposition parity of the Hermitian half-step propagator along the Gibbs path (D5), caps closed with the right trace vectors per tensor rank (D6). Each is a necessary condition of unit trace / Hermiticity. Positivity and the numerical size of deviations after SVD truncation are not decided. D7: the augmented MPS keeps the gammas and lambdas it is given (value-preserving conversions only). D8: between two recorded sites the contraction uses exactly lambda_{a+1..b} and the traced tensors of sites a+1..b-1. D9: PT-TEBD applies a single-site control as rho' = M rho (input axis contracted, output axis becomes the physical leg; controls handed over unchanged).",
        note="Trusted: Kronecker/vec convention stated in operators.py; eta.real/eta.imag real. Partial claim: structural necessary conditions only.",
        ref="2/C04 and 7.2"),
    "C05": dict(
        technique="typestate on matrices (HERMITIAN established -> decomposition must be of the Hermitian family); adjoint-pair operand check by flow into keyword / attribute; index calculus (dot, @, tensordot, einsum, moveaxis, .T) of the transformed MPO tensor; definite-initialisation rule of the rotation pair over the back-end class family; exchanged-argument rule over calls with known signatures",
        text="Decides that the diagonalising transform comes from a solver whose contract gives a unitary transform and real eigenvalues for every Hermitian input (E1), and that forward/backward basis changes are mutual adjoints at every consumer (E2), Bath stores the solver's outputs unchanged (E3), and both get_mpo_tensor return M_in[k,i] T[a,b,i,j] M_out[j,l] (E4). Numerical covariance of dynamics is not decided. E2 also requires that every back-end class instantiated in the package builds the rotation pair before it rotates. E6: transform_in and transform_out (or any two plain names) are never passed in each other's positions. E7: the coupling operator Bath stores in its eigenbasis is rotated back (U D U^dagger) or rejected by every reader outside bath.py. E8: a file-backed process tensor is re-opened with the transforms stored under the same keys.",
        note="Trusted: frozen numpy/scipy table (eigh family vs general eig). Partial claim.",
        ref="2/C05"),
    "C06": dict(
        technique="provenance (role) tags NORTH/WEST flowed from producer to every consumer by def-use; late-binding analysis of closures created in loops (free variables vs names the loop rebinds, fate of the closure)",
        text="Decides role consistency of the two degeneracy maps from Bath to every consumer (R1) and that classes are equality classes of the full key tuple with an absolute tolerance (R2). Numerical equality of reduced and full runs is not decided. R4: no influence closure kept beyond a loop iteration reads a variable the loop rebinds (each species uses its own bath's degeneracy positions). R5: the vectors that close the reduced legs (sum_north / sum_west) are vectors of ones on every path.",
        note="Trusted: def-use engine; numpy indexing semantics for a[idx] / outer. Partial claim.",
        ref="2/C06"),
    "C07": dict(
        technique="interprocedural def-use (argument reachability), co-selection by same mask, interval analysis of slice bounds, predicate pairing, loop-carried dependence on the CFG; composition-order rule of class Control including list slots folded at read time",
        text="Decides the alignment bookkeeping of multi-time correlations: one time step for axes and dynamics (V1), values and write-back indices selected together (V2), no wrap-around in interval parsing (V3), anti-ordering swap-in/swap-out under one predicate (V4), NaN-initialised result written only at scheduled indices (V5), complementary ordering predicates (V6), operator-side table (V7), no working value carried between schedule entries (V8). Exactness of the values is not decided. V10: operators of a multi-time correlation that fall on the same step act in insertion order (Control composes with the new operation on the left, also when a slot is kept as a list and folded). V11: bath dynamics rotate the stored (diagonalised) coupling operator back before computing system correlations.",
        note="Trusted: Python slice semantics table; def-use engine. Partial claim.",
        ref="2/C07"),
    "C08": dict(
        technique="polynomial forms of half-step indices; event-sequence extraction and mirror (reversal) check of the backward pass; parity of leg transpositions per call site under the path condition of the flags passed",
        text="Decides the index maps of the half-step parameters/derivatives (H1), that the backward pass is the reversed, transposed mirror of the forward step incl. environment order (H2) forward-loop sibling agreement (H3), derivative provenance: a differentiation operator applied to the forward half-step propagator (H4), memo-key completeness in ParameterizedSystem (H5). Equality with finite differences is not decided. H7: in the backward pass every environment MPO is transposed exactly once per leg pair (swapped copies plus flag-dependent leg roles of _apply_pt_mpos), in the forward pass not at all.",
        note="Trusted: forms engine; loop-direction idiom table. Partial claim.",
        ref="2/C08"),
    "C09": dict(
        technique="step-offset tags of times and state lists at every field_eom call; linear-form comparison of the Heun update; call-graph reachability of the shared network step; must-redefine on every loop path (sign analysis of the loop variable); late-binding analysis of closures created in loops; memo-key rule incl. caches validated by a stored key, over the mean-field front end and back end",
        text="Decides time/state alignment of both Runge-Kutta stages (F1), the Heun form in both implementations (F2) that both back ends share one network-stepping routine (F3), and that the values carried between steps are renewed on every path of every later iteration (F4). Numerical agreement is not decided. F6: the per-system callables of a mean-field computation are not late-bound to the last system of a loop. F5 also covers the mean-field back end and caches validated by a stored key (a field value is not a time step). F7: compute_dynamics_with_field / MeanFieldTempo forward subdiv_limit = None (sample instead of integrate) unchanged.",
        note="Trusted: forms engine; step-tag facts listed in evidence. Partial claim.",
        ref="2/C09"),
    "C10": dict(
        technique="import resolvability by locating and parsing the imported package; effect/ordering rule on the parallel layer; dispatch sibling agreement; value-preservation analysis of the augmented MPS constructor; guarded-cache rule over the PT-TEBD back end; leg-role table of the PT-TEBD consumer",
        text="Decides that every execution mode resolves its names (I1), that a parallel layer's result is independent of completion order (I2: snapshot before submit, pure worker, ordered consumption, write-back in caller after join) that all modes reach the same worker and write-back (I3), site weights (I5), Trotter layer coverage (I6), and the count of bond matrices / traced site tensors between two recorded sites as polynomials in the site indices (I7). Exactness against dense propagation is not decided. I8: a chain state saved with get_augmented_mps() and handed back is stored as given. I9: traces cached by an early return are reset by every method that changes the chain tensors. I10: PT-TEBD attaches a process tensor to a site with the leg roles every other consumer uses. I11: single-site gates are applied as rho' = M rho. I12: every bond gets a gate built for it in the same iteration (site = loop index).",
        note="Trusted: concurrent.futures semantics table (Executor.map preserves submission order; `with` joins). Partial claim.",
        ref="2/C10"),
    "C11": dict(
        technique="guarded-stepping rule (control dependence of stepping on step/target); return-expression form; polynomial form of the imaginary-time label; term-wise magnitude bound of the eta kernel beyond its overflow guard on the imaginary-time axis; degree-of-homogeneity calculus on the truncation comparisons of the Gibbs back end; adjoint check of spectral reconstructions (eigh / eig eigenvector matrices)",
        text="Decides that repeating GibbsTempo.compute is idempotent (K1), that the returned state is X/X.trace() on every path (K2) the imaginary-time slice/label forms (K3), Matsubara coefficients on the imaginary-time grid (K4), even transposition parity of every propagator factor of the path (K5: orientation of the thermal state), Matsubara flag in every memo key (K6). Equality with the reduced thermal state is not decided. K8: the thermal eta kernel beyond its overflow guard keeps every term not bounded by exp(-w/T) for Matsubara arguments. K9: the Gibbs back end truncates relative to the largest singular value only (no absolute floor). K10: a matrix function rebuilt from eigh(H) uses the conjugate transpose of the eigenvector matrix. K11: the imaginary-time path keeps its whole memory (GibbsTempo hands no memory length of its own to the back end; the Matsubara correlations are periodic).",
        note="Trusted: def-use/CFG engine. Partial claim.",
        ref="2/C11"),
    "C12": dict(
        technique="sibling cross-check: linear forms over the uninterpreted eta() against the dblquad regions; shape-name table; .real on Matsubara paths; registry agreement; exponential-polynomial forms of the integrands: branch beyond the overflow guard vs guarded branch, term by term, with the guard's test checked to imply the bound",
        text="Decides that the closed-form cell integrals are the inclusion-exclusion of the double antiderivative over exactly the regions the quadrature sibling integrates (L1), shape-name agreement (L2), Matsubara realness by construction (L3) cutoff-registry / integrand-builder agreement (L4), eta'' = C between the two integrand builders (L5), memo-key completeness in bath_correlations (L6). The kernel eta itself is not decided. L8: the integrands beyond the overflow guard equal the guarded ones up to terms bounded by exp(-w/T) for real and Matsubara arguments, and the guard implies that bound on the approximate branch. L9: the quadrature over the semi-infinite tail of the frequency axis is done in units of the cutoff frequency (QUADPACK's map of [a, inf) is not scale covariant; repaired in 910df93).",
        note="Trusted: forms engine over an uninterpreted function; scipy.dblquad argument convention table. Partial claim.",
        ref="2/C12"),
    "C13": dict(
        technique="role-typed quotient detection + rounding-idiom classification; path-conditioned slicing on record_all; polynomial forms of time labels; def-use pairing of insert indices; commit-last rule for step counters; all-or-none path rule for the parallel lists of the result containers; guarded-stepping analysis of the front ends; truthiness tests of time parameters",
        text="Decides how floats become step counts and the form START + k*DT of every time label (G1-G4) for all front ends and steppers. G5: no step counter is advanced before a user callable of that step has returned. G6: time and value lists of Dynamics.add / MeanFieldDynamics.add are inserted together on every path and recorded times are not merged through a relative tolerance. G7: a computation stops at the requested grid point wherever it starts from (stepping depends on the current step and the target). G8: no parameter with a time role is tested for truthiness. G9: a front end that can be re-initialised re-creates the records its stepping appends to.",
        note="Trusted: role vocabulary (printed in evidence); forms engine. The floating-point value of the quotient itself is covered by requiring a tolerant conversion.",
        ref="2/C13"),
    "C14": dict(
        technique="control dependence of stepping calls on (step, target); effect analysis of getters; commit-last rule (persistent write before foreign call on some CFG path) with frozen triaged exceptions; export coverage of restart state; effect analysis of every state-changing call in compute() against (step, target) / run-once guards",
        text="Decides continuation/idempotence guards of all five method objects (T1), idempotent getters (T2), failure atomicity of step transactions w.r.t. user callables (T3) and restart export coverage (T4). T8: compute() changes the computational state only through guarded stepping or run-once initialisation. T9: initialize() of a restartable front end re-creates the accumulated results (a second run does not append to the first).",
        note="Trusted: effect tables (which attributes hold user callables - frozen with the chain that proves it). Numerical identity across the dkmax boundary not decided.",
        ref="2/C14"),
    "C15": dict(
        technique="polynomial forms: coefficient of START in every manufactured/consumed absolute time; START plumbing by role binding; call-graph reachability of user time-dependent callables; affine typing of recorded times in the result containers (points vs differences); coefficient sums of start and end time in the sample grids of the parameter estimator; truthiness tests of time parameters; memo-key rule over the system classes",
        text="Decides that every absolute time handed to a user callable or used as a label is START + (START-free), every float time is rounded as (t-START)/DT (U1), each front end forwards its own start time (U2), and no user time-dependent callable is reached from a site outside the table (U3). U4: the result containers never use a recorded time as a magnitude and never compare it through a relative tolerance. U5: the parameter estimator samples a time-dependent system on the window of the computation (the premise of a former exemption, now checked). U6: the time origin t = 0 takes no special branch (no truthiness test of a time parameter). U7: no memo in the system classes leaves start_time (or anything else the stored value depends on) out of its key.",
        note="Trusted: forms engine; role vocabulary. Floating-point non-associativity not decided.",
        ref="2/C15"),
    "C16": dict(
        technique="writer/reader key-table agreement; field coverage of export/import; nullness round-trip of setter/getter pairs; sibling agreement of the two get_mpo_tensor / PtTempo constructions; value-preservation analysis of export / import and of the HDF5 helpers; memo-key rule over the process-tensor getters incl. single-slot memos; exchanged-argument rule over calls with known signatures",
        text="Decides table agreement of HDF5 keys (X1), field coverage of export and import (X2), None round-trip (X3), shape/data index pairing (X4), raw-vs-transformed discipline as an index-contraction signature of both get_mpo_tensor (X5), agreement of the two PtTempo constructions (X6), dtype table (X7). Bitwise equality through HDF5 is not decided. X9: export and import move tensors through value-preserving conversions only. X10: no getter of a process tensor serves a remembered value whose key leaves out an argument of the request (e.g. the transformed flag). X11: every field reaches the constructor parameter it is named after (no two names passed in each other's positions, also through super().__init__). X12: flatten / restore in logical order. X13: reading does not change the process tensor (no getter writes a setter-owned store).",
        note="Trusted: h5py dataset API table. Partial claim.",
        ref="2/C16"),
    "C17": dict(
        technique="dominance on the CFG; path-conditioned abstract evaluation with the typed fact 'h5py attribute = numpy scalar, never identical to True'; constant propagation of the open-mode table; who-may-call for file removal; who-may-call analysis of helpers that clear the flag",
        text="Decides the life cycle of the 'writing' flag (W1-W3, W6), the open-mode table (W4) and the removal guard (W5) - every structural condition of the crash-safety clause. W2 / W6 accept the reset of the flag in a helper that only close() can reach.",
        note="Trusted: h5py/numpy semantics table. What HDF5 has flushed at an arbitrary kill point is not decided.",
        ref="2/C17"),
    "C18": dict(
        technique="operand-position check on accumulation sites identified by def-use; event-order check on the CFG with events classified by provenance; products of superoperators with feasible-path filtering; ownership analysis of in-place updates; sortedness requirement for itertools.groupby over stacked controls; late-binding analysis of control closures",
        text="Decides composition order of stacked controls (O1), pre/record/post/propagate order of all steppers on every path (O2), float-time rounding and the None convention (O3). O2 reads products of controls and propagators (factors in cycle order, fused-in roles checked on feasible paths). O6: controls and propagators are never combined by updating a shared array in place. O1 also covers list slots folded at read time and requires groupby input sorted by its key. O7: no closure that looks controls up is late-bound to the last system / site of a loop. O8: a re-initialised PT-TEBD chain starts all of its run state again, so controls are applied as in a fresh object (no 'already applied' flag survives initialize()).",
        note="Trusted: `A @ B` applies B first; tensornetwork contraction is order-free.",
        ref="2/C18"),
    "C19": dict(
        technique="must-pass-through on the CFG with exceptional edges (enter/exit pairing); who-may-start enumeration; lock+flag typestate of the re-arming timer; exceptional-edge reachability after Timer.start() in enter()",
        text="Decides the structural content of C19 completely: every progress object is paired on all paths incl. exceptions (P1), nothing else starts background activity (P2), the re-arming timer follows the lock+stop-flag protocol (P3), protocol/registry (P4). P5: in enter() nothing that can raise follows the timer start (otherwise __exit__ never runs and the timer is never cancelled).",
        note="Trusted: threading.Timer / Executor context-manager semantics table.",
        ref="2/C19"),
    "C20": dict(
        technique="effect analysis: transitive self-attribute reads of memoised methods; closure-capture analysis vs shallow copy; array provenance for .shape stores; mutated-parameter summaries; ownership analysis of in-place updates; lru_cache over internally mutated state; closure-shared memos; late-binding analysis of closures created in loops",
        text="Decides the structural ways state leaks here: stale memoisation (A1), closures outliving a copy (A2/A3), layout-dependent in-place reshape (A4), writes to caller data (A5), shared mutable defaults (A6), process-global state (A6b), memo keys and memo invalidation (A7, A7b), copies kept and handed out (A8). A9: no function updates in place an object it does not own (attributes of others, container elements, results of callables that hand out stored arrays). A1 also covers private state rewritten by other methods; A7 covers memos kept on self by closures. A10: no closure kept beyond a loop iteration reads a variable the loop rebinds.",
        note="Trusted: numpy copy/view/layout table; functools.lru_cache key semantics. Partial claim.",
        ref="2/C20"),
}

NOT_APPLICABLE = {
}


def main():
    implemented = sorted(f[:-3].upper() for f in os.listdir(os.path.join(HERE, "rules"))
                         if f.startswith("c") and f.endswith(".py"))
    checks = []
    na = [{"property_id": k, "reason": v} for k, v in sorted(NOT_APPLICABLE.items())]
    for pid, c in sorted(CLAIMS.items()):
        if pid not in implemented:
            na.append({"property_id": pid,
                       "reason": "checker not built yet in this snapshot (claimed in DESIGN.md; "
                                 "will move to `checks` when its rule module lands)"})
            continue
        checks.append({
            "property_id": pid,
            "quick_cmd": f"{PY} check {pid} --tier quick",
            "thorough_cmd": f"{PY} check {pid} --tier thorough",
            "evidence_file": f"evidence/{pid}.json",
            "replay_cmd_template": f"{PY} check {pid} --replay {{path}}",
            "engine": "oqv",
            "level_claimed": {"category": "other", "text": c["text"],
                              "design_ref": f"DESIGN.md section {c['ref']}"},
            "level_note": c["note"],
            "technique": "static analysis: " + c["technique"],
        })
    man = {
        "version": 1,
        "setup_cmd": f"{PY} -m compileall -q oqv rules selftest check",
        "hooks": {
            "guard": "OQUPY_VERIF",
            "enable": "no hooks: every check parses /repo's working tree; nothing is instrumented",
            "baseline_off_cmd": "cd /repo && /venv/bin/python -m pytest -ra -q -p no:cacheprovider --timeout=900 --continue-on-collection-errors",
            "source_commits": [],
            "add_only": True,
        },
        "engines": [{
            "name": "oqv",
            "path": "oqv/",
            "serves_properties": [c["property_id"] for c in checks],
            "kind_free_text": "repo-specific static analyser on Python's ast: program model, "
                              "statement CFG with exceptional edges, reaching definitions, "
                              "Laurent-polynomial forms, path-conditioned abstract evaluation",
        }],
        "checks": checks,
        "not_applicable": sorted(na, key=lambda x: x["property_id"]),
        "notes": "Exit 0 held / 1 VIOLATION / 2 ANALYSIS-ERROR (analysis cannot be trusted: "
                 "vanished anchor, instance floor not met, unclassifiable construct). Known "
                 "findings: known_findings.json. Thorough tier = quick analysis + mutation "
                 "self-test (sensitivity) + behaviour-preserving variants (silence) on scratch "
                 "copies under $TMPDIR.",
    }
    with open(os.path.join(HERE, "MANIFEST.json"), "w") as fh:
        json.dump(man, fh, indent=1)
    print("checks:", [c["property_id"] for c in checks])
    print("not_applicable:", [x["property_id"] for x in man["not_applicable"]])


if __name__ == "__main__":
    main()
