#!/venv/bin/python
"""Developer tool: run one check against /repo and against another tree and list the rule
instances (rule, function, construct) that appear in only one of them.
usage: diff_instances.py <PID> <other tree>"""
import json, os, subprocess, sys, tempfile
pid, other = sys.argv[1], sys.argv[2]
HERE = os.path.dirname(os.path.dirname(os.path.abspath(__file__)))
def run(repo):
    d = tempfile.mkdtemp(prefix="oqv_ev_")
    env = dict(os.environ, OQV_EVIDENCE_DIR=d, OQV_REPLAY_DIR=os.path.join(d, "replay"))
    subprocess.run(["/venv/bin/python", os.path.join(HERE, "check"), pid, "--repo", repo, "--no-selftest"],
                   capture_output=True, text=True, env=env)
    f = os.path.join(d, f"{pid}.json")
    if not os.path.exists(f):
        return None
    ev = json.load(open(f))
    return [(i["rule"], i["function"], i["construct"], i["verdict"]) for i in ev["coverage"]["samples"]]
a, b = run("/repo"), run(other)
if a is None or b is None:
    print("no evidence written (analysis error?)"); sys.exit(1)
import collections
ca, cb = collections.Counter((r, f) for r, f, c, v in a), collections.Counter((r, f) for r, f, c, v in b)
for k in sorted(set(ca) | set(cb)):
    if ca[k] != cb[k]:
        print(f"{k}: /repo {ca[k]}  other {cb[k]}")
print(len(a), len(b))
