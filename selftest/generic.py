"""Generic behaviour-preserving rewrites of the whole package (silence variants).

Each takes a scratch directory holding a copy of `oqupy/` and rewrites every
module in place; all of them preserve behaviour by construction:

  rename_locals   alpha-renaming: every function-local variable that is not a
                  parameter, not global/nonlocal and not referenced from a
                  nested scope (closure, lambda, comprehension, class body) gets
                  an opaque new name `v<k>_`.  Parameters keep their names (keyword API).
  flip_branches   `if c: A else: B` -> `if not c: B else: A` for every two-armed
                  `if` whose else arm is not an `elif` chain.
  reverse_kwargs  keyword arguments of every call in reverse order (positional
                  arguments and `**kw` untouched; argument expressions in this
                  code base are free of side effects on each other).
  keyword_arguments  positional arguments of calls to module-level package functions and
                  `self.` methods (names unique in the package) passed by keyword.
  extract_blocks  extract method: every top-level for / while / if / with statement of a
                  function or method that reads only names bound before it and hands back only
                  names that were bound before it becomes a new private helper (102 helpers on
                  the pinned tree); OQuPy's test suite passes on the rewritten package.
  conditional_expressions / default_first / return_in_branches
                  three spellings of a two-way choice: `x = A if c else B`; `x = B` followed by
                  `if c: x = A` (plain defaults only); the function's final return copied into
                  the arms of the if / elif / else in front of it.
  loops_to_comprehensions / comprehensions_to_loops
                  `xs = []; for t in it: xs.append(e)` <-> `xs = [e for t in it]` at statement
                  level (loop variables that are read after the loop / that would shadow a name
                  of the function are left alone).
  counter_updates `x += 1` -> `x = x + 1` for names / attributes updated by an integer literal.
"""
from __future__ import annotations

import ast
import os
import symtable
from typing import Dict, List, Set


def _modules(scratch: str) -> List[str]:
    out = []
    for dirpath, _, files in os.walk(os.path.join(scratch, "oqupy")):
        for f in files:
            if f.endswith(".py"):
                out.append(os.path.join(dirpath, f))
    return sorted(out)


def _rewrite(scratch: str, transform) -> List[str]:
    changed = []
    for full in _modules(scratch):
        with open(full) as fh:
            src = fh.read()
        tree = ast.parse(src)
        new = transform(tree, src, full)
        if new is None:
            continue
        ast.fix_missing_locations(new)
        out = ast.unparse(new) + "\n"
        compile(out, full, "exec")
        with open(full, "w") as fh:
            fh.write(out)
        changed.append(os.path.relpath(full, scratch))
    return changed


# ------------------------------------------------------------------ rename
def _renamable(tab: symtable.SymbolTable) -> Set[str]:
    """Locals of function scope `tab` that can be renamed without touching any other scope."""
    names = set()
    child_refs: Set[str] = set()

    def collect(t):
        for ch in t.get_children():
            for s in ch.get_symbols():
                # any mention in a nested scope (free, local shadow, global decl) blocks renaming
                child_refs.add(s.get_name())
            collect(ch)
    collect(tab)
    for s in tab.get_symbols():
        n = s.get_name()
        if not s.is_local() or s.is_parameter() or s.is_global() or s.is_nonlocal() \
                or s.is_free() or s.is_imported() or s.is_namespace():
            continue
        if n in child_refs or n.startswith("__") or n == "_":
            continue
        names.add(n)
    return names


_SCOPES = (ast.FunctionDef, ast.AsyncFunctionDef, ast.Lambda, ast.ClassDef, ast.ListComp,
           ast.SetComp, ast.DictComp, ast.GeneratorExp)


def _mentioned_in_nested_scopes(fn: ast.AST) -> Set[str]:
    """Identifiers mentioned inside any scope nested in fn (comprehensions are inlined by
    CPython 3.12 and not reported as child tables, so they are collected from the tree).
    The first iterable of a comprehension belongs to the enclosing scope and is skipped."""
    out: Set[str] = set()

    def inner(n):
        for y in ast.walk(n):
            if isinstance(y, ast.Name):
                out.add(y.id)
            elif isinstance(y, ast.arg):
                out.add(y.arg)

    def rec(n, top):
        for ch in ast.iter_child_nodes(n):
            if isinstance(ch, _SCOPES):
                if isinstance(ch, (ast.ListComp, ast.SetComp, ast.DictComp, ast.GeneratorExp)):
                    first = ch.generators[0].iter
                    for part in ast.iter_child_nodes(ch):
                        if part is ch.generators[0]:
                            inner(part.target)
                            for c in part.ifs:
                                inner(c)
                            rec(first, False)
                        else:
                            inner(part)
                else:
                    inner(ch)
            else:
                rec(ch, False)
    rec(fn, True)
    return out


class _Renamer(ast.NodeTransformer):
    """Renames Name nodes of the chosen identifiers inside ONE function body, not descending
    into nested function / lambda / class / comprehension scopes (the chosen names do not
    occur there by construction).  The new names are opaque (`v1_`, `v2_`, ...): nothing of
    the old spelling survives, so a rule that recognises a variable by a substring of its
    name fails this rewrite."""

    def __init__(self, names: Set[str], taken: Set[str] = frozenset()):
        self.names = names
        self.map: Dict[str, str] = {}
        k = 0
        for n in sorted(names):
            k += 1
            while f"v{k}_" in taken:
                k += 1
            self.map[n] = f"v{k}_"

    def visit_Name(self, node):
        if node.id in self.names:
            return ast.copy_location(ast.Name(id=self.map[node.id], ctx=node.ctx), node)
        return node

    def visit_FunctionDef(self, node):
        return node

    visit_AsyncFunctionDef = visit_FunctionDef
    visit_Lambda = visit_FunctionDef
    visit_ClassDef = visit_FunctionDef

    def _comp(self, node):
        # the first iterable is evaluated in the enclosing scope
        if node.generators:
            node.generators[0].iter = self.visit(node.generators[0].iter)
        return node

    visit_ListComp = visit_SetComp = visit_DictComp = visit_GeneratorExp = _comp

    def visit_ExceptHandler(self, node):
        if node.name in self.names:
            node.name = self.map[node.name]
        self.generic_visit(node)
        return node


def rename_locals(scratch: str) -> List[str]:
    def transform(tree, src, full):
        top = symtable.symtable(src, full, "exec")
        # map (name, lineno) of function scopes to their tables
        tabs: Dict[tuple, symtable.SymbolTable] = {}

        def walk(t):
            for ch in t.get_children():
                if ch.get_type() == "function":
                    tabs.setdefault((ch.get_name(), ch.get_lineno()), ch)
                walk(ch)
        walk(top)
        for fn in ast.walk(tree):
            if not isinstance(fn, (ast.FunctionDef, ast.AsyncFunctionDef)):
                continue
            tab = tabs.get((fn.name, fn.lineno))
            if tab is None:
                continue
            names = _renamable(tab) - _mentioned_in_nested_scopes(fn)
            # names used by exec-like or locals() tricks do not occur in this code base
            if not names:
                continue
            taken = {y.id for y in ast.walk(fn) if isinstance(y, ast.Name)} | \
                {a.arg for y in ast.walk(fn) if isinstance(y, ast.arguments)
                 for a in y.posonlyargs + y.args + y.kwonlyargs}
            r = _Renamer(names, taken)
            fn.body = [r.visit(st) for st in fn.body]
        return tree
    return _rewrite(scratch, transform)


# -------------------------------------------------------------------- flip
class _Flipper(ast.NodeTransformer):
    def visit_If(self, node):
        self.generic_visit(node)
        if not node.orelse:
            return node
        if len(node.orelse) == 1 and isinstance(node.orelse[0], ast.If):
            return node                     # elif chain: leave
        test = node.test
        if isinstance(test, ast.UnaryOp) and isinstance(test.op, ast.Not):
            new_test = test.operand
        else:
            new_test = ast.UnaryOp(op=ast.Not(), operand=test)
        return ast.copy_location(ast.If(test=new_test, body=node.orelse, orelse=node.body), node)


def flip_branches(scratch: str) -> List[str]:
    return _rewrite(scratch, lambda tree, src, full: _Flipper().visit(tree))


# ------------------------------------------------------------------ kwargs
class _KwReverser(ast.NodeTransformer):
    def visit_Call(self, node):
        self.generic_visit(node)
        named = [k for k in node.keywords if k.arg is not None]
        if len(named) >= 2 and len(named) == len(node.keywords):
            node.keywords = list(reversed(node.keywords))
        return node


def reverse_kwargs(scratch: str) -> List[str]:
    return _rewrite(scratch, lambda tree, src, full: _KwReverser().visit(tree))


# ------------------------------------------------------------------ compare
_SWAP = {ast.Lt: ast.Gt, ast.Gt: ast.Lt, ast.LtE: ast.GtE, ast.GtE: ast.LtE,
         ast.Eq: ast.Eq, ast.NotEq: ast.NotEq}


class _CmpSwapper(ast.NodeTransformer):
    def visit_Compare(self, node):
        self.generic_visit(node)
        if len(node.ops) == 1 and type(node.ops[0]) in _SWAP:
            return ast.copy_location(
                ast.Compare(left=node.comparators[0], ops=[_SWAP[type(node.ops[0])]()],
                            comparators=[node.left]), node)
        return node


def swap_comparisons(scratch: str) -> List[str]:
    """`a < b` -> `b > a`, `a == b` -> `b == a`, ... for every single comparison (`is`, `in`
    and chained comparisons untouched).  Operands in this code base are side-effect free."""
    return _rewrite(scratch, lambda tree, src, full: _CmpSwapper().visit(tree))




# ------------------------------------------------------------------ hoist
class _Hoister(ast.NodeTransformer):
    """`x = f(a + b, g(c))` -> `h1_ = a + b; h2_ = g(c); x = f(h1_, h2_)` for assignments and
    expression statements whose value is a call: positional arguments that are themselves
    calls / arithmetic are evaluated into fresh temporaries first (same order)."""

    def __init__(self):
        self.k = 0

    def _hoist(self, st, call):
        pre = []
        if not isinstance(call, ast.Call) or any(isinstance(a, ast.Starred) for a in call.args):
            return [st]
        # the callee expression must be evaluation-order neutral (a name or attribute chain)
        f = call.func
        while isinstance(f, ast.Attribute):
            f = f.value
        if not isinstance(f, ast.Name):
            return [st]
        new_args = []
        for a in call.args:
            if isinstance(a, (ast.BinOp, ast.Call, ast.Subscript)) and not any(
                    isinstance(y, (ast.Lambda, ast.NamedExpr, ast.Yield, ast.Await,
                                   ast.GeneratorExp)) for y in ast.walk(a)):
                self.k += 1
                name = f"h{self.k}_"
                pre.append(ast.copy_location(
                    ast.Assign(targets=[ast.Name(id=name, ctx=ast.Store())], value=a), st))
                new_args.append(ast.copy_location(ast.Name(id=name, ctx=ast.Load()), a))
            else:
                # arguments after an unhoisted one stay in place (keeps the order of evaluation)
                new_args.append(a)
                if not isinstance(a, (ast.Name, ast.Constant, ast.Attribute)):
                    new_args += call.args[len(new_args):]
                    break
        call.args = new_args
        return pre + [st]

    def _block(self, stmts):
        out = []
        for st in stmts:
            st = self.generic_visit(st) if not isinstance(st, (ast.FunctionDef, ast.ClassDef,
                                                                 ast.AsyncFunctionDef)) \
                else self.visit(st)
            if isinstance(st, ast.Assign) and isinstance(st.value, ast.Call) \
                    and all(isinstance(t, ast.Name) for t in st.targets):
                out += self._hoist(st, st.value)
            elif isinstance(st, ast.Expr) and isinstance(st.value, ast.Call):
                out += self._hoist(st, st.value)
            else:
                out.append(st)
        return out

    def generic_visit(self, node):
        for field in ("body", "orelse", "finalbody"):
            v = getattr(node, field, None)
            if isinstance(v, list) and v and isinstance(v[0], ast.stmt):
                setattr(node, field, self._block(v))
        if isinstance(node, ast.Try):
            for h in node.handlers:
                h.body = self._block(h.body)
        return node

    def visit_Module(self, node):
        # only function bodies: module level statements stay (constants, imports)
        for st in node.body:
            if isinstance(st, (ast.FunctionDef, ast.AsyncFunctionDef, ast.ClassDef)):
                self.visit(st)
        return node

    def visit_ClassDef(self, node):
        for st in node.body:
            if isinstance(st, (ast.FunctionDef, ast.AsyncFunctionDef, ast.ClassDef)):
                self.visit(st)
        return node

    def visit_FunctionDef(self, node):
        self.k = 0
        node.body = self._block(node.body)
        return node

    visit_AsyncFunctionDef = visit_FunctionDef


def hoist_arguments(scratch: str) -> List[str]:
    return _rewrite(scratch, lambda tree, src, full: _Hoister().visit(tree))


# ------------------------------------------------------------------ argument style
def _package_signatures(scratch: str) -> Dict[str, List[str]]:
    """name -> positional parameter names, for module-level functions and methods whose name is
    defined exactly once in the package and that take neither *args nor positional-only
    parameters (methods: without self)."""
    seen: Dict[str, List[List[str]]] = {}
    for full in _modules(scratch):
        with open(full) as fh:
            tree = ast.parse(fh.read())
        for node in ast.walk(tree):
            if isinstance(node, ast.ClassDef):
                for f in node.body:
                    if isinstance(f, ast.FunctionDef):
                        a = f.args
                        ok = not a.vararg and not a.posonlyargs and not any(
                            isinstance(d, ast.Name) and d.id in ("staticmethod", "classmethod", "property")
                            or isinstance(d, ast.Attribute) for d in f.decorator_list)
                        seen.setdefault("." + f.name, []).append(
                            [x.arg for x in a.args][1:] if ok else None)
        for f in tree.body:
            if isinstance(f, ast.FunctionDef):
                a = f.args
                ok = not a.vararg and not a.posonlyargs and not f.decorator_list
                seen.setdefault(f.name, []).append([x.arg for x in a.args] if ok else None)
    return {k: v[0] for k, v in seen.items() if len(v) == 1 and v[0] is not None}


class _ArgStyler(ast.NodeTransformer):
    """Positional arguments of calls to package functions / `self.` methods become keyword
    arguments (same values, same callee parameters)."""

    def __init__(self, sigs: Dict[str, List[str]], local_names: Set[str]):
        self.sigs = sigs
        self.local_names = local_names

    def visit_Call(self, node):
        self.generic_visit(node)
        if any(isinstance(a, ast.Starred) for a in node.args) or not node.args:
            return node
        params = None
        if isinstance(node.func, ast.Name) and node.func.id in self.sigs \
                and node.func.id in self.local_names:
            params = self.sigs[node.func.id]
        elif isinstance(node.func, ast.Attribute) and isinstance(node.func.value, ast.Name) \
                and node.func.value.id == "self" and "." + node.func.attr in self.sigs:
            params = self.sigs["." + node.func.attr]
        if params is None or len(node.args) > len(params):
            return node
        used = {k.arg for k in node.keywords}
        names = params[:len(node.args)]
        if used & set(names):
            return node
        node.keywords = [ast.keyword(arg=n, value=a) for n, a in zip(names, node.args)] + node.keywords
        node.args = []
        return node


def keyword_arguments(scratch: str) -> List[str]:
    """`f(a, b)` -> `f(x=a, y=b)` for calls of module-level package functions (defined or
    imported by name in the calling module) and of `self.` methods whose name is unique in
    the package."""
    sigs = _package_signatures(scratch)

    def transform(tree, src, full):
        local = {f.name for f in tree.body if isinstance(f, ast.FunctionDef)}
        for st in tree.body:
            if isinstance(st, ast.ImportFrom) and (st.module or "").startswith("oqupy"):
                local |= {a.asname or a.name for a in st.names}
        return _ArgStyler(sigs, local).visit(tree)
    return _rewrite(scratch, transform)


# ------------------------------------------------------------------ inline temporaries
_PURE_HEADS = ("np", "numpy", "math", "cmath", "operator")
_PURE_BUILTINS = {"len", "int", "float", "complex", "abs", "max", "min", "sum", "round", "range",
                  "tuple", "list", "str", "bool", "sorted", "zip", "enumerate", "isinstance"}


def _pure(e: ast.AST) -> bool:
    for x in ast.walk(e):
        if isinstance(x, (ast.Lambda, ast.NamedExpr, ast.Await, ast.Yield, ast.YieldFrom,
                          ast.ListComp, ast.DictComp, ast.SetComp, ast.GeneratorExp, ast.Starred)):
            return False
        if isinstance(x, ast.Call):
            f = x.func
            if isinstance(f, ast.Name) and f.id in _PURE_BUILTINS:
                continue
            if isinstance(f, ast.Attribute):
                head = f
                while isinstance(head, ast.Attribute):
                    head = head.value
                if isinstance(head, ast.Name) and head.id in _PURE_HEADS:
                    continue
            return False
    return True


class _Inliner(ast.NodeTransformer):
    """`t = <pure expression>; <next statement using t once>` -> the next statement with the
    expression written out, when t is assigned once and read once in the whole function (and
    not mentioned in a nested scope)."""

    def visit_FunctionDef(self, node):
        self.generic_visit(node)
        stores: Dict[str, int] = {}
        loads: Dict[str, int] = {}
        for x in ast.walk(node):
            if isinstance(x, ast.Name):
                if isinstance(x.ctx, ast.Store):
                    stores[x.id] = stores.get(x.id, 0) + 1
                elif isinstance(x.ctx, ast.Load):
                    loads[x.id] = loads.get(x.id, 0) + 1
            elif isinstance(x, (ast.Global, ast.Nonlocal)):
                for n in x.names:
                    stores[n] = 99
        nested = _mentioned_in_nested_scopes(node)
        params = {a.arg for a in node.args.args + node.args.kwonlyargs}
        cand = {n for n in stores if stores[n] == 1 and loads.get(n, 0) == 1
                and n not in nested and n not in params}

        def block(stmts):
            out = []
            i = 0
            while i < len(stmts):
                st = stmts[i]
                nxt = stmts[i + 1] if i + 1 < len(stmts) else None
                if isinstance(st, ast.Assign) and len(st.targets) == 1 \
                        and isinstance(st.targets[0], ast.Name) and st.targets[0].id in cand \
                        and _pure(st.value) and nxt is not None \
                        and not isinstance(nxt, (ast.For, ast.While, ast.If, ast.With, ast.Try,
                                                 ast.FunctionDef, ast.ClassDef)):
                    name = st.targets[0].id
                    uses = [x for x in ast.walk(nxt) if isinstance(x, ast.Name) and x.id == name
                            and isinstance(x.ctx, ast.Load)]
                    # names the expression reads must not be re-bound by the next statement
                    rebound = {x.id for x in ast.walk(nxt) if isinstance(x, ast.Name)
                               and isinstance(x.ctx, ast.Store)}
                    reads = {x.id for x in ast.walk(st.value) if isinstance(x, ast.Name)}
                    if len(uses) == 1 and not (rebound & reads) and not isinstance(nxt, ast.AugAssign):
                        import copy
                        value = st.value

                        class Sub(ast.NodeTransformer):
                            def visit_Name(self, n):
                                if n.id == name and isinstance(n.ctx, ast.Load):
                                    return copy.deepcopy(value)
                                return n
                        out.append(Sub().visit(nxt))
                        i += 2
                        continue
                out.append(st)
                i += 1
            return out
        for x in ast.walk(node):
            for field in ("body", "orelse", "finalbody"):
                b = getattr(x, field, None)
                if isinstance(b, list) and b and isinstance(b[0], ast.stmt):
                    setattr(x, field, block(b))
        return node


def inline_temporaries(scratch: str) -> List[str]:
    """A local assigned once from a call-free / numpy-only expression and read once, in the
    statement that follows, is written out at its use."""
    return _rewrite(scratch, lambda tree, src, full: _Inliner().visit(tree))


# ------------------------------------------------------------------ tuple unpacking
class _Unpacker(ast.NodeTransformer):
    """`a, b = f(x)` -> `r1_ = f(x); a = r1_[0]; b = r1_[1]` for assignments of a call result
    to a flat tuple of plain names (functions of this code base return tuples or lists there)."""

    def __init__(self):
        self.k = 0

    def _block(self, stmts):
        out = []
        for st in stmts:
            if isinstance(st, ast.Assign) and len(st.targets) == 1 \
                    and isinstance(st.targets[0], ast.Tuple) \
                    and all(isinstance(e, ast.Name) for e in st.targets[0].elts) \
                    and isinstance(st.value, ast.Call) \
                    and not (isinstance(st.value.func, ast.Name)
                             and st.value.func.id in ("zip", "map", "iter", "enumerate", "reversed")):
                self.k += 1
                tmp = f"r{self.k}_"
                out.append(ast.copy_location(ast.Assign(
                    targets=[ast.Name(id=tmp, ctx=ast.Store())], value=st.value), st))
                for i, e in enumerate(st.targets[0].elts):
                    out.append(ast.copy_location(ast.Assign(
                        targets=[ast.Name(id=e.id, ctx=ast.Store())],
                        value=ast.Subscript(value=ast.Name(id=tmp, ctx=ast.Load()),
                                            slice=ast.Constant(value=i), ctx=ast.Load())), st))
            else:
                out.append(st)
        return out

    def generic_visit(self, node):
        super().generic_visit(node)
        for field in ("body", "orelse", "finalbody"):
            b = getattr(node, field, None)
            if isinstance(b, list) and b and isinstance(b[0], ast.stmt):
                setattr(node, field, self._block(b))
        return node


def index_unpacking(scratch: str) -> List[str]:
    """Tuple unpacking of call results replaced by indexing a temporary."""
    return _rewrite(scratch, lambda tree, src, full: _Unpacker().visit(tree))


# ------------------------------------------------------------------ extract method
def _loads(node: ast.AST) -> Set[str]:
    return {x.id for x in ast.walk(node) if isinstance(x, ast.Name) and isinstance(x.ctx, ast.Load)}


def _stores(node: ast.AST) -> Set[str]:
    out = {x.id for x in ast.walk(node) if isinstance(x, ast.Name) and isinstance(x.ctx, (ast.Store, ast.Del))}
    out |= {h.name for h in ast.walk(node) if isinstance(h, ast.ExceptHandler) and h.name}
    out |= {h.name for h in ast.walk(node) if isinstance(h, (ast.FunctionDef, ast.ClassDef))}
    out |= {(a.asname or a.name).split(".")[0] for h in ast.walk(node)
            if isinstance(h, (ast.Import, ast.ImportFrom)) for a in h.names}
    return out


def _extractable(st: ast.stmt) -> bool:
    if not isinstance(st, (ast.For, ast.While, ast.If, ast.With)):
        return False
    loops = 0
    for x in ast.walk(st):
        if isinstance(x, (ast.Return, ast.Yield, ast.YieldFrom, ast.Await, ast.Nonlocal, ast.Global,
                          ast.FunctionDef, ast.AsyncFunctionDef, ast.ClassDef, ast.Lambda,
                          ast.NamedExpr)):
            return False
        if isinstance(x, ast.Call) and isinstance(x.func, ast.Name) and x.func.id in ("super", "locals", "vars"):
            return False
    # break / continue must belong to a loop inside the block

    def escapes(node, in_loop):
        for ch in ast.iter_child_nodes(node):
            if isinstance(ch, (ast.Break, ast.Continue)) and not in_loop:
                return True
            if escapes(ch, in_loop or isinstance(ch, (ast.For, ast.While))):
                return True
        return False
    return not escapes(st, isinstance(st, (ast.For, ast.While)))


class _Extractor:
    """Every top-level for / while / if / with statement of a function or method whose values
    flow in through names bound before it and out through names that were already bound
    before it (an "update" block) or through nothing at all (an effect block) becomes a new
    private helper; the statement is replaced by the call.  Helpers of methods are methods."""

    def __init__(self):
        self.k = 0

    def function(self, fn: ast.FunctionDef, is_method: bool, taken: Set[str]) -> List[ast.FunctionDef]:
        if fn.decorator_list and any(not (isinstance(d, ast.Name) and d.id in ("staticmethod",))
                                     for d in fn.decorator_list):
            return []
        if any(isinstance(d, ast.Name) and d.id == "staticmethod" for d in fn.decorator_list):
            is_method = False
        if fn.args.vararg or fn.args.kwarg:
            return []
        if any(isinstance(x, (ast.Nonlocal, ast.Global)) for x in ast.walk(fn)):
            return []
        nested = [x for x in ast.walk(fn) if isinstance(x, (ast.FunctionDef, ast.Lambda)) and x is not fn]
        captured = set()
        for n_ in nested:
            captured |= _loads(n_) | _stores(n_)
        params = [a.arg for a in fn.args.posonlyargs + fn.args.args + fn.args.kwonlyargs]
        self_name = params[0] if (is_method and params) else None
        locals_ = set(params) | {n for b in fn.body for n in _stores(b)}
        helpers: List[ast.FunctionDef] = []
        bound: Set[str] = set(params)
        new_body: List[ast.stmt] = []
        for i, st in enumerate(fn.body):
            later = set()
            for st2 in fn.body[i + 1:]:
                later |= _loads(st2)
            if _extractable(st):
                reads = (_loads(st) & locals_)
                writes = _stores(st)
                live_out = sorted(writes & later)
                if reads <= bound and set(live_out) <= bound and not (writes & captured) \
                        and not ((reads | writes) & captured - set(params)) \
                        and (self_name is None or self_name not in writes):
                    self.k += 1
                    name = f"_x{self.k}_{fn.name.strip('_')}"
                    while name in taken:
                        self.k += 1
                        name = f"_x{self.k}_{fn.name.strip('_')}"
                    taken.add(name)
                    ins = sorted((reads | set(live_out)) - ({self_name} if self_name else set()))
                    args = ([ast.arg(arg=self_name)] if self_name else []) + [ast.arg(arg=a) for a in ins]
                    body: List[ast.stmt] = [st]
                    if live_out:
                        body.append(ast.Return(value=ast.Tuple(
                            elts=[ast.Name(id=a, ctx=ast.Load()) for a in live_out], ctx=ast.Load())
                            if len(live_out) > 1 else ast.Name(id=live_out[0], ctx=ast.Load())))
                    helper = ast.FunctionDef(
                        name=name, args=ast.arguments(posonlyargs=[], args=args, vararg=None, kwonlyargs=[],
                                                      kw_defaults=[], kwarg=None, defaults=[]),
                        body=body, decorator_list=[], returns=None, type_comment=None, type_params=[])
                    func = ast.Attribute(value=ast.Name(id=self_name, ctx=ast.Load()), attr=name, ctx=ast.Load()) \
                        if self_name else ast.Name(id=name, ctx=ast.Load())
                    call = ast.Call(func=func, args=[ast.Name(id=a, ctx=ast.Load()) for a in ins], keywords=[])
                    if live_out:
                        tgt = ast.Tuple(elts=[ast.Name(id=a, ctx=ast.Store()) for a in live_out], ctx=ast.Store()) \
                            if len(live_out) > 1 else ast.Name(id=live_out[0], ctx=ast.Store())
                        new_body.append(ast.copy_location(ast.Assign(targets=[tgt], value=call), st))
                    else:
                        new_body.append(ast.copy_location(ast.Expr(value=call), st))
                    helpers.append(ast.copy_location(helper, st))
                    bound |= _stores(st) & set(live_out)
                    continue
            new_body.append(st)
            # names bound for certain after a simple statement; compound statements may bind
            # on some paths only
            if isinstance(st, (ast.Assign, ast.AnnAssign, ast.AugAssign, ast.Import, ast.ImportFrom)):
                bound |= _stores(st)
            elif isinstance(st, (ast.FunctionDef, ast.ClassDef)):
                bound.add(st.name)
            elif isinstance(st, ast.With):
                bound |= {x.id for it in st.items if it.optional_vars is not None
                          for x in ast.walk(it.optional_vars) if isinstance(x, ast.Name)}
        fn.body = new_body
        return helpers

    def module(self, tree: ast.Module) -> ast.Module:
        taken = {x.name for x in ast.walk(tree) if isinstance(x, (ast.FunctionDef, ast.ClassDef))}
        new_top: List[ast.stmt] = []
        for node in tree.body:
            if isinstance(node, ast.FunctionDef):
                hs = self.function(node, False, taken)
                new_top.append(node)
                new_top += hs
            elif isinstance(node, ast.ClassDef):
                body = []
                for f in node.body:
                    body.append(f)
                    if isinstance(f, ast.FunctionDef):
                        is_static = any(isinstance(d, ast.Name) and d.id == "staticmethod"
                                        for d in f.decorator_list)
                        hs = self.function(f, not is_static, taken)
                        if is_static:
                            # helpers of a static method are module functions
                            new_top += hs
                        else:
                            body += hs
                node.body = body
                new_top.append(node)
            else:
                new_top.append(node)
        # module-level helpers of static methods were appended before their class: fine for calls
        tree.body = new_top
        return tree


def extract_blocks(scratch: str) -> List[str]:
    """Extract-method on every function: top-level loops / branches / with-blocks become new
    private helpers (see _Extractor)."""
    ex = _Extractor()
    return _rewrite(scratch, lambda tree, src, full: ex.module(tree))


# ------------------------------------------------------------------ branch spellings
class _CondExpr(ast.NodeTransformer):
    """if c: x = A  else: x = B      ->      x = A if c else B"""

    def visit_If(self, node):
        self.generic_visit(node)
        if len(node.body) == 1 and len(node.orelse) == 1 and \
                isinstance(node.body[0], ast.Assign) and isinstance(node.orelse[0], ast.Assign) \
                and len(node.body[0].targets) == 1 and len(node.orelse[0].targets) == 1 \
                and isinstance(node.body[0].targets[0], (ast.Name, ast.Attribute)) \
                and ast.dump(node.body[0].targets[0]) == ast.dump(node.orelse[0].targets[0]):
            new = ast.Assign(targets=node.body[0].targets,
                             value=ast.IfExp(test=node.test, body=node.body[0].value,
                                             orelse=node.orelse[0].value))
            return ast.copy_location(new, node)
        return node


def conditional_expressions(scratch: str) -> List[str]:
    """Two-armed ifs that assign one target written as conditional expressions."""
    return _rewrite(scratch, lambda tree, src, full: _CondExpr().visit(tree))


class _DefaultFirst(ast.NodeTransformer):
    """if c: x = A  else: x = B      ->      x = B; if c: x = A
    when B is a constant, a plain name or an attribute chain (nothing to evaluate twice or out
    of order) and the test does not read x."""

    def _block(self, stmts):
        out = []
        for st in stmts:
            if isinstance(st, ast.If) and len(st.body) == 1 and len(st.orelse) == 1 and \
                    isinstance(st.body[0], ast.Assign) and isinstance(st.orelse[0], ast.Assign) \
                    and len(st.body[0].targets) == 1 and len(st.orelse[0].targets) == 1 \
                    and isinstance(st.body[0].targets[0], ast.Name) \
                    and ast.dump(st.body[0].targets[0]) == ast.dump(st.orelse[0].targets[0]):
                name = st.body[0].targets[0].id
                b = st.orelse[0].value
                plain = isinstance(b, (ast.Constant, ast.Name)) or (
                    isinstance(b, ast.Attribute) and all(
                        isinstance(y, (ast.Attribute, ast.Name, ast.Load)) for y in ast.walk(b)))
                if plain and name not in _loads(st.test) and name not in _loads(st.body[0].value) \
                        and name not in _loads(b):
                    out.append(ast.copy_location(st.orelse[0], st))
                    st.orelse = []
                    out.append(st)
                    continue
            out.append(st)
        return out

    def generic_visit(self, node):
        super().generic_visit(node)
        for field in ("body", "orelse", "finalbody"):
            b = getattr(node, field, None)
            if isinstance(b, list) and b and isinstance(b[0], ast.stmt):
                setattr(node, field, self._block(b))
        return node


def default_first(scratch: str) -> List[str]:
    """Two-armed ifs that choose between a computed value and a plain default written as
    `x = default` followed by a one-armed if."""
    return _rewrite(scratch, lambda tree, src, full: _DefaultFirst().visit(tree))


class _ReturnInBranches(ast.NodeTransformer):
    """... if c: A  else: B; return e      ->      ... if c: A; return e  else: B; return e"""

    def visit_FunctionDef(self, node):
        self.generic_visit(node)
        if len(node.body) >= 2 and isinstance(node.body[-1], ast.Return) and \
                isinstance(node.body[-2], ast.If) and node.body[-2].orelse:
            ret, br = node.body[-1], node.body[-2]
            import copy
            def push(stmts):
                last = stmts[-1]
                if isinstance(last, ast.If) and last.orelse:
                    push(last.body)
                    push(last.orelse)
                elif not isinstance(last, (ast.Return, ast.Raise)):
                    stmts.append(copy.deepcopy(ret))
            push(br.body)
            push(br.orelse)
            node.body = node.body[:-1]
        return node


def return_in_branches(scratch: str) -> List[str]:
    """The final return of a function copied into the arms of the if / elif / else that
    precedes it (single exit -> early exits)."""
    return _rewrite(scratch, lambda tree, src, full: _ReturnInBranches().visit(tree))


# ------------------------------------------------------------------ loops <-> comprehensions
class _LoopsToComprehensions(ast.NodeTransformer):
    """xs = []; for t in it: xs.append(e)      ->      xs = [e for t in it]
    (the loop body is the single append, no else branch, `xs` is not read by e or it)"""

    def _block(self, stmts):
        out, i = [], 0
        while i < len(stmts):
            st = stmts[i]
            nxt = stmts[i + 1] if i + 1 < len(stmts) else None
            if isinstance(st, ast.Assign) and len(st.targets) == 1 and isinstance(st.targets[0], ast.Name) \
                    and isinstance(st.value, ast.List) and not st.value.elts \
                    and isinstance(nxt, ast.For) and not nxt.orelse and len(nxt.body) == 1 \
                    and isinstance(nxt.body[0], ast.Expr) and isinstance(nxt.body[0].value, ast.Call):
                name = st.targets[0].id
                c = nxt.body[0].value
                if isinstance(c.func, ast.Attribute) and c.func.attr == "append" \
                        and isinstance(c.func.value, ast.Name) and c.func.value.id == name \
                        and len(c.args) == 1 and not c.keywords \
                        and name not in _loads(c.args[0]) and name not in _loads(nxt.iter) \
                        and not any(isinstance(x, (ast.Yield, ast.YieldFrom, ast.Await, ast.NamedExpr))
                                    for x in ast.walk(c.args[0])):
                    comp = ast.ListComp(elt=c.args[0], generators=[
                        ast.comprehension(target=nxt.target, iter=nxt.iter, ifs=[], is_async=0)])
                    out.append(ast.copy_location(ast.Assign(targets=st.targets, value=comp), st))
                    i += 2
                    continue
            out.append(st)
            i += 1
        return out

    def generic_visit(self, node):
        super().generic_visit(node)
        for field in ("body", "orelse", "finalbody"):
            b = getattr(node, field, None)
            if isinstance(b, list) and b and isinstance(b[0], ast.stmt):
                setattr(node, field, self._block(b))
        return node


def loops_to_comprehensions(scratch: str) -> List[str]:
    """Append loops written as list comprehensions.  (The loop variable of a comprehension is
    not visible afterwards; a later use of it would fail to compile the test-suite's way, so
    only loops whose variable is not read after the loop are rewritten.)"""
    def tr(tree, src, full):
        # loop variables that are read after their loop stay loops: collect names per function
        class Guard(_LoopsToComprehensions):
            def _block(self, stmts):
                out = super()._block(list(stmts))
                # undo where the target is read later in the same block
                fixed, k = [], 0
                for j, st in enumerate(out):
                    fixed.append(st)
                return fixed
        return _SafeLoops().visit(tree)
    return _rewrite(scratch, tr)


class _SafeLoops(_LoopsToComprehensions):
    def visit_FunctionDef(self, node):
        # names bound by for-loops that are read outside their loop anywhere in the function
        leaked = set()
        for loop in [x for x in ast.walk(node) if isinstance(x, ast.For)]:
            tgt = {y.id for y in ast.walk(loop.target) if isinstance(y, ast.Name)}
            inside = {id(y) for y in ast.walk(loop)}
            for y in ast.walk(node):
                if isinstance(y, ast.Name) and y.id in tgt and id(y) not in inside:
                    leaked |= {y.id}
        self._leaked = getattr(self, "_leaked_stack", []) and self._leaked or set()
        prev = getattr(self, "_cur_leaked", set())
        self._cur_leaked = leaked
        try:
            return self.generic_visit(node)
        finally:
            self._cur_leaked = prev

    def _block(self, stmts):
        leaked = getattr(self, "_cur_leaked", set())
        keep = []
        for st in stmts:
            keep.append(st)
        out, i = [], 0
        while i < len(keep):
            st = keep[i]
            nxt = keep[i + 1] if i + 1 < len(keep) else None
            if isinstance(nxt, ast.For) and ({y.id for y in ast.walk(nxt.target) if isinstance(y, ast.Name)} & leaked):
                out.append(st)
                i += 1
                continue
            pair = super()._block([st, nxt]) if nxt is not None else [st]
            if nxt is not None and len(pair) == 1:
                out.append(pair[0])
                i += 2
            else:
                out.append(st)
                i += 1
        return out


class _ComprehensionsToLoops(ast.NodeTransformer):
    """xs = [e for t in it]      ->      xs = []; for t in it: xs.append(e)
    (one generator, no conditions, statement level, `xs` not read by the comprehension)"""

    def _block(self, stmts):
        out = []
        for st in stmts:
            if isinstance(st, ast.Assign) and len(st.targets) == 1 and isinstance(st.targets[0], ast.Name) \
                    and isinstance(st.value, ast.ListComp) and len(st.value.generators) == 1 \
                    and not st.value.generators[0].ifs and not st.value.generators[0].is_async \
                    and st.targets[0].id not in _loads(st.value) \
                    and not any(isinstance(x, (ast.ListComp, ast.GeneratorExp, ast.SetComp, ast.DictComp, ast.Lambda))
                                for x in ast.walk(st.value.elt)):
                g = st.value.generators[0]
                name = st.targets[0].id
                # the loop variable must not shadow a name of the enclosing function that is
                # used later: comprehension variables are private, loop variables are not
                tnames = {y.id for y in ast.walk(g.target) if isinstance(y, ast.Name)}
                if tnames & getattr(self, "_fn_names", set()):
                    out.append(st)
                    continue
                out.append(ast.copy_location(ast.Assign(targets=st.targets, value=ast.List(elts=[], ctx=ast.Load())), st))
                body = ast.Expr(value=ast.Call(func=ast.Attribute(value=ast.Name(id=name, ctx=ast.Load()),
                                                                  attr="append", ctx=ast.Load()),
                                               args=[st.value.elt], keywords=[]))
                out.append(ast.copy_location(ast.For(target=g.target, iter=g.iter, body=[body], orelse=[],
                                                     type_comment=None), st))
                continue
            out.append(st)
        return out

    def visit_FunctionDef(self, node):
        # names used in the function outside comprehensions
        comp_nodes = set()
        for c in ast.walk(node):
            if isinstance(c, (ast.ListComp, ast.GeneratorExp, ast.SetComp, ast.DictComp)):
                comp_nodes |= {id(y) for y in ast.walk(c)}
        prev = getattr(self, "_fn_names", set())
        self._fn_names = {y.id for y in ast.walk(node) if isinstance(y, ast.Name) and id(y) not in comp_nodes} \
            | {a.arg for a in node.args.args + node.args.kwonlyargs}
        try:
            return self.generic_visit(node)
        finally:
            self._fn_names = prev

    def generic_visit(self, node):
        super().generic_visit(node)
        if isinstance(node, (ast.Module, ast.ClassDef)):
            return node
        for field in ("body", "orelse", "finalbody"):
            b = getattr(node, field, None)
            if isinstance(b, list) and b and isinstance(b[0], ast.stmt):
                setattr(node, field, self._block(b))
        return node


def comprehensions_to_loops(scratch: str) -> List[str]:
    """Statement-level list comprehensions written as append loops."""
    return _rewrite(scratch, lambda tree, src, full: _ComprehensionsToLoops().visit(tree))


class _CounterUpdates(ast.NodeTransformer):
    """x += 1  ->  x = x + 1  for counters (a name or attribute updated by an integer literal)"""

    def visit_AugAssign(self, node):
        if isinstance(node.target, (ast.Name, ast.Attribute)) and isinstance(node.value, ast.Constant) \
                and isinstance(node.value.value, int) and not isinstance(node.value.value, bool) \
                and isinstance(node.op, (ast.Add, ast.Sub)):
            import copy
            load = copy.deepcopy(node.target)
            for x in ast.walk(load):
                if hasattr(x, "ctx"):
                    x.ctx = ast.Load()
            return ast.copy_location(ast.Assign(
                targets=[node.target], value=ast.BinOp(left=load, op=node.op, right=node.value)), node)
        return node


def counter_updates(scratch: str) -> List[str]:
    """Integer counters updated with `x = x + 1` instead of `x += 1`."""
    return _rewrite(scratch, lambda tree, src, full: _CounterUpdates().visit(tree))


def all_rewrites(scratch: str) -> List[str]:
    """All rewrites applied one after the other (temporaries first, so that they are renamed
    like every other local)."""
    out = []
    for f in (hoist_arguments, keyword_arguments, rename_locals, flip_branches, swap_comparisons,
              reverse_kwargs):
        out = f(scratch)
    return out
