"""Thorough tier: test the checker both ways on scratch copies of /repo.

* sensitivity: every mutation registered for the property (selftest/mutations.py:
  one rule instance broken, tree still compiles) and every kept seeded change
  (/verif/seeded/<id>/patch.diff whose meta.json names this property) must
  make `check <pid>` exit 1 and name the expected rule;
* silence: behaviour-preserving variants must leave it at exit 0.

Scratch copies live under $TMPDIR (never in /repo or /verif) and are removed
as soon as the variant has been judged.  A failing audit is an
ANALYSIS-ERROR (the checker is wrong), never a property violation.
"""
from __future__ import annotations

import json
import os
import py_compile
import shutil
import subprocess
import sys
import tempfile
import time
from concurrent.futures import ThreadPoolExecutor
from typing import Any, Dict, List, Optional

HERE = os.path.dirname(os.path.dirname(os.path.abspath(__file__)))
sys.path.insert(0, HERE)

from oqv.model import AnalysisError  # noqa: E402

PY = sys.executable


def _scratch(repo: str, tag: str) -> str:
    base = tempfile.mkdtemp(prefix=f"oqv_{tag}_", dir=os.environ.get("TMPDIR") or None)
    shutil.copytree(os.path.join(repo, "oqupy"), os.path.join(base, "oqupy"),
                    ignore=shutil.ignore_patterns("__pycache__"))
    return base


def _run_check(pid: str, scratch: str) -> (int, str):
    env = dict(os.environ, OQV_NO_EVIDENCE="1", OQV_REPLAY_DIR=os.path.join(scratch, "replay"))
    p = subprocess.run([PY, os.path.join(HERE, "check"), pid, "--repo", scratch,
                        "--no-selftest"], capture_output=True, text=True, env=env, timeout=600)
    return p.returncode, p.stdout + p.stderr


def _judge(pid: str, repo: str, var: Dict[str, Any]) -> Dict[str, Any]:
    t0 = time.time()
    scratch = _scratch(repo, f"{pid}_{var['name'][:20].replace(' ', '_').replace('/', '_')}")
    res = {"name": var["name"], "kind": var["kind"], "expect_rule": var.get("expect_rule")}
    try:
        applied = var["apply"](scratch)
        if not applied:
            res.update(status="inapplicable",
                       detail="pattern no longer present in the tree (refactored)")
            return res
        for f in applied:
            try:
                with open(os.path.join(scratch, f)) as fh:
                    compile(fh.read(), f, "exec")
            except SyntaxError as e:
                res.update(status="broken-variant", detail=str(e)[:200])
                return res
        rc, out = _run_check(pid, scratch)
        res["exit"] = rc
        if var["kind"] == "break":
            want = var.get("expect_rule")
            hit = rc == 1 and (want is None or f"[{want}]" in out)
            if hit and var.get("expect_text"):
                hit = var["expect_text"] in out
            res["status"] = "caught" if hit else "MISSED"
            if not hit:
                res["detail"] = out[-600:]
        else:
            res["status"] = "silent" if rc == 0 else "FALSE-ALARM"
            if rc == 2 and var.get("may_be_undecided") and "VIOLATION" not in out:
                res["status"] = "undecided"
            if rc != 0:
                res["detail"] = out[-600:]
        return res
    finally:
        shutil.rmtree(scratch, ignore_errors=True)
        res["wall_s"] = round(time.time() - t0, 2)


def _seeded_variants(pid: str) -> List[Dict[str, Any]]:
    out = []
    root = os.path.join(HERE, "seeded")
    if not os.path.isdir(root):
        return out
    for d in sorted(os.listdir(root)):
        meta_p = os.path.join(root, d, "meta.json")
        patch_p = os.path.join(root, d, "patch.diff")
        if not (os.path.exists(meta_p) and os.path.exists(patch_p)):
            continue
        with open(meta_p) as fh:
            meta = json.load(fh)
        if pid not in meta.get("caught_by", []):
            continue

        def apply(scratch, patch_p=patch_p):
            p = subprocess.run(["patch", "-p1", "-s", "-i", patch_p], cwd=scratch,
                               capture_output=True, text=True)
            if p.returncode != 0:
                return []
            files = []
            with open(patch_p) as fh:
                for line in fh:
                    if line.startswith("+++ b/") and line.strip().endswith(".py") \
                            and line[6:].startswith("oqupy/"):
                        files.append(line[6:].strip())
            return files
        out.append({"name": f"seeded/{d}", "kind": "break", "apply": apply,
                    "expect_rule": (meta.get("expect_rule") or {}).get(pid)
                    if isinstance(meta.get("expect_rule"), dict) else None})
    return out


def _refactoring_variants(pid: str) -> List[Dict[str, Any]]:
    """Independent behaviour-preserving refactorings (/verif/refactorings/<id>/patch.diff, written
    by sub-agents that saw only the module and the instruction to preserve behaviour; each
    confirmed: OQuPy's tests pass, the agent's equivalence digest is identical before and
    after).  Every one of them is a silence variant of every property."""
    out = []
    root = os.path.join(HERE, "refactorings")
    if not os.path.isdir(root):
        return out
    for d in sorted(os.listdir(root)):
        patch_p = os.path.join(root, d, "patch.diff")
        if not os.path.exists(patch_p):
            continue

        def apply(scratch, patch_p=patch_p):
            p = subprocess.run(["patch", "-p1", "-s", "-i", patch_p], cwd=scratch,
                               capture_output=True, text=True)
            if p.returncode != 0:
                return []
            files = []
            with open(patch_p) as fh:
                for line in fh:
                    if line.startswith("+++ b/") and line.strip().endswith(".py") \
                            and line[6:].startswith("oqupy/"):
                        files.append(line[6:].strip())
            return files
        undecided = []
        meta_p = os.path.join(root, d, "meta.json")
        if os.path.exists(meta_p):
            with open(meta_p) as fh:
                undecided = json.load(fh).get("undecided", [])
        # where the restructuring is known to be beyond the rules (meta.json `undecided`) the
        # check may say "cannot decide" (exit 2); it must never report a violation (exit 1)
        out.append({"name": f"refactorings/{d}", "kind": "benign", "apply": apply,
                    "may_be_undecided": pid in undecided})
    return out


def run(pid: str, repo: str, seed: int = 0) -> Dict[str, Any]:
    from selftest import mutations
    variants = [v for v in mutations.variants(pid)] + _seeded_variants(pid) + \
        _refactoring_variants(pid)
    if not variants:
        return {"variants": 0, "note": "no variants registered for this property"}
    jobs = min(16, len(variants))
    with ThreadPoolExecutor(max_workers=jobs) as ex:
        results = list(ex.map(lambda v: _judge(pid, repo, v), variants))
    bad = [r for r in results if r["status"] in ("MISSED", "FALSE-ALARM", "broken-variant")]
    if os.environ.get("OQV_STRICT_VARIANTS") == "1":
        # developer switch: a variant whose anchor text is gone is stale and must be re-written
        bad += [r for r in results if r["status"] == "inapplicable"]
    summary = {
        "variants": len(results),
        "caught": sum(r["status"] == "caught" for r in results),
        "silent": sum(r["status"] == "silent" for r in results),
        "inapplicable": sum(r["status"] == "inapplicable" for r in results),
        "undecided": sum(r["status"] == "undecided" for r in results),
        "results": [{k: v for k, v in r.items() if k != "detail" or r["status"] != "caught"}
                    for r in results],
    }
    if bad:
        for r in bad:
            print(f"SELFTEST {r['status']}: {r['name']} (expect {r.get('expect_rule')})")
            if r.get("detail"):
                print("   " + r["detail"].replace("\n", "\n   "))
        raise AnalysisError(
            f"self-test of the {pid} checker failed for {len(bad)} variant(s): "
            + ", ".join(f"{r['name']}={r['status']}" for r in bad))
    print(f"selftest {pid}: {summary['caught']} breaking variants caught, "
          f"{summary['silent']} benign variants silent, "
          f"{summary['inapplicable']} inapplicable")
    return summary


if __name__ == "__main__":
    import argparse
    ap = argparse.ArgumentParser()
    ap.add_argument("pid")
    ap.add_argument("--repo", default="/repo")
    a = ap.parse_args()
    try:
        print(json.dumps(run(a.pid.upper(), a.repo), indent=1)[:3000])
    except AnalysisError as e:
        print("ANALYSIS-ERROR", e)
        sys.exit(2)
