"""Tiny positive example for rule C20/A7 (must be reported on every run)."""


class Sampler:
    def __init__(self):
        self._grid_cache = {}

    def grid(self, kind, dt, start_time):
        cached = self._grid_cache.get(kind)
        if cached is None or cached[0] != dt:
            cached = (dt, [start_time + k * dt for k in range(4)])
            self._grid_cache[kind] = cached
        return cached[1]
