"""Tiny positive example for rule C20/A7 (must be reported on every run)."""


class Sampler:
    def __init__(self):
        self._grid_cache = {}

    def grid(self, kind, dt, start_time):
        cached = self._grid_cache.get(kind)
        if cached is None or cached[0] != dt:
            cached = (dt, [start_time + k * dt for k in range(4)])
            self._grid_cache[kind] = cached
        return cached[1]


class Store:
    """Positive example for rule C20/A7b: put() rewrites the raw items the memo of
    prepared items was computed from and leaves the memo alone."""

    def __init__(self):
        self._raw = []
        self._scale = 2
        self._prepared = {}

    def put(self, index, item):
        self._raw[index] = item

    def rescale(self, scale):
        self._scale = scale
        self._prepared.clear()

    def prepared(self, index):
        if index in self._prepared:
            return self._prepared[index]
        value = self._raw[index] * self._scale
        self._prepared[index] = value
        return value
