"""Registry of checker self-test variants (see harness.py).

break  : one rule instance broken; the tree still compiles and (by
         construction or by a kept demonstration) passes OQuPy's own tests;
         the check must exit 1 naming `expect_rule`.
benign : behaviour-preserving rewrite; the check must stay at exit 0.

Variants are textual rewrites of the *current* tree; when the anchor text is
gone (the code was refactored) the variant reports `inapplicable` instead of
failing, and the harness prints how many were applicable.
"""
from __future__ import annotations

import os
import re
from typing import Any, Callable, Dict, List

_REG: Dict[str, List[Dict[str, Any]]] = {}


def _sub(path: str, old: str, new: str, count: int = 1, regex: bool = False):
    def apply(scratch: str):
        full = os.path.join(scratch, path)
        with open(full) as fh:
            s = fh.read()
        if regex:
            s2, n = re.subn(old, new, s, count=count, flags=re.S)
            if n == 0:
                return []
        else:
            if old not in s:
                return []
            s2 = s.replace(old, new, count)
        with open(full, "w") as fh:
            fh.write(s2)
        return [path]
    return apply


def _multi(*subs):
    def apply(scratch: str):
        files = []
        for s in subs:
            r = s(scratch)
            if not r:
                return []
            files += r
        return files
    return apply


def brk(pid, name, rule, apply, text=None):
    _REG.setdefault(pid, []).append(
        {"name": name, "kind": "break", "expect_rule": rule, "apply": apply,
         "expect_text": text})


def ok(pid, name, apply):
    _REG.setdefault(pid, []).append({"name": name, "kind": "benign", "apply": apply})


def variants(pid: str) -> List[Dict[str, Any]]:
    return list(_REG.get(pid, []))


SD = "oqupy/system_dynamics.py"
GR = "oqupy/gradient.py"
UT = "oqupy/util.py"
PT = "oqupy/process_tensor.py"
TE = "oqupy/tempo.py"
PTT = "oqupy/pt_tempo.py"
CT = "oqupy/control.py"
TB = "oqupy/backends/tempo_backend.py"
PTB = "oqupy/backends/pt_tempo_backend.py"
TEBD = "oqupy/pt_tebd.py"
TEBDB = "oqupy/backends/pt_tebd_backend.py"
BC = "oqupy/bath_correlations.py"
BA = "oqupy/bath.py"
SY = "oqupy/system.py"
MM = "oqupy/mps_mpo.py"
DY = "oqupy/dynamics.py"
BD = "oqupy/bath_dynamics.py"

# ------------------------------------------------------------------ C19
brk("C19", "compute_dynamics: with -> enter()/exit() without finally", "P1", _sub(
    SD, '    with get_progress(progress_type)(num_steps, title) as prog_bar:\n        for step in range(num_steps+1):\n            # -- apply pre',
    '    prog_bar = get_progress(progress_type)(num_steps, title)\n    prog_bar.enter()\n    if True:\n        for step in range(num_steps+1):\n            # -- apply pre'))
brk("C19", "_chain_rule: progress object entered, exit only on the normal path", "P1", _sub(
    GR, '    with get_progress(progress_type)(num_steps, title) as prog_bar:\n        for i in range(0,num_steps):',
    '    prog_bar = get_progress(progress_type)(num_steps, title)\n    prog_bar.enter()\n    if True:\n        for i in range(0,num_steps):'))
brk("C19", "Tempo.compute: manual enter without exit on exception", "P1", _sub(
    TE, '        with progress(num_step, title) as prog_bar:\n            for i in range(num_step):\n                prog_bar.update(i)\n                step, state = self._backend_instance.compute_step()',
    '        prog_bar = progress(num_step, title)\n        prog_bar.enter()\n        if True:\n            for i in range(num_step):\n                prog_bar.update(i)\n                step, state = self._backend_instance.compute_step()'))
brk("C19", "ProgressBar.update re-arms without looking at the stop flag", "P3", _sub(
    UT, '            if self._stopped:\n                return\n', ''))
brk("C19", "ProgressBar.exit cancels outside the lock", "P3", _sub(
    UT, '        with self._lock:\n            self._stopped = True\n            if self._timer is not None:\n                self._timer.cancel()\n',
    '        self._stopped = True\n        if self._timer is not None:\n            self._timer.cancel()\n'))
brk("C19", "ProgressBar.exit forgets to set the stop flag", "P3", _sub(
    UT, '            self._stopped = True\n            if self._timer is not None:', '            if self._timer is not None:'))
brk("C19", "extra daemon thread started in a backend", "P2", _sub(
    TEBDB, 'import concurrent.futures\n', 'import concurrent.futures\nimport threading\n_T = threading.Thread(target=lambda: None)\n'))
brk("C19", "executor not context managed", "P2", _sub(
    TEBDB, '                with concurrent.futures.ThreadPoolExecutor() as executor:\n                    output_datas = executor.map(apply_nn_gate, input_datas)',
    '                executor = concurrent.futures.ThreadPoolExecutor()\n                if True:\n                    output_datas = executor.map(apply_nn_gate, input_datas)'))
brk("C19", "BaseProgress.__exit__ skips exit() when an exception is in flight", "P4", _sub(
    UT, '        """Contextmanager exit. """\n        self.exit()', '        """Contextmanager exit. """\n        if exception_type is None:\n            self.exit()'))
brk("C19", "ProgressBar.exit prints before cancelling", "P4", _sub(
    UT, '        """Context exit. """\n        with self._lock:\n            self._stopped = True',
    '        """Context exit. """\n        self._print_status()\n        with self._lock:\n            self._stopped = True'))
ok("C19", "compute_dynamics: with -> try/finally", _sub(
    SD, '    with get_progress(progress_type)(num_steps, title) as prog_bar:\n        for step in range(num_steps+1):\n            # -- apply pre',
    '    prog_bar = get_progress(progress_type)(num_steps, title)\n    prog_bar.enter()\n    try:\n        for step in range(num_steps+1):\n            # -- apply pre')
    if False else _multi(
        _sub(SD, '    with get_progress(progress_type)(num_steps, title) as prog_bar:\n        for step in range(num_steps+1):\n            # -- apply pre',
             '    prog_bar = get_progress(progress_type)(num_steps, title)\n    prog_bar.enter()\n    try:\n        for step in range(num_steps+1):\n            # -- apply pre'),
        _sub(SD, '        prog_bar.update(num_steps)\n\n    # -- create dynamics object --\n    if record_all:\n        times = start_time + np.arange(len(states))*dt',
             '        prog_bar.update(num_steps)\n    finally:\n        prog_bar.exit()\n\n    # -- create dynamics object --\n    if record_all:\n        times = start_time + np.arange(len(states))*dt')))
ok("C19", "rename prog_bar in _chain_rule", _sub(GR, 'prog_bar', 'pbar', count=1000))

# ------------------------------------------------------------------ C17
brk("C17", "close(): identity test on the numpy flag", "W2", _sub(
    PT, 'if self._write and self._f.attrs["writing"]:', 'if self._write and self._f.attrs["writing"] is True:'))
brk("C17", "close(): reset also attempted in read mode", "W2", _sub(
    PT, 'if self._write and self._f.attrs["writing"]:', 'if self._f.attrs["writing"]:'))
brk("C17", "close(): file closed before the flag is reset", "W2", _sub(
    PT, '            if self._write and self._f.attrs["writing"]:\n                self._f.attrs["writing"] = False\n            self._f.close()',
    '            self._f.close()\n            if self._write and self._f.attrs["writing"]:\n                self._f.attrs["writing"] = False'))
brk("C17", "_read_file: identity test on the numpy flag", "W3", _sub(
    PT, 'if self._f.attrs["writing"]:\n            warnings.warn(', 'if self._f.attrs["writing"] is True:\n            warnings.warn('))
brk("C17", "_read_file: warning dropped", "W3", _sub(
    PT, 'if self._f.attrs["writing"]:\n            warnings.warn(', 'if False:\n            warnings.warn('))
brk("C17", "_create_file: flag set after the datasets exist", "W1", _multi(
    _sub(PT, '        self._f.attrs["writing"] = True\n', ''),
    _sub(PT, '        self.set_initial_tensor(initial_tensor=None)\n\n    def _read_file',
         '        self.set_initial_tensor(initial_tensor=None)\n        self._f.attrs["writing"] = True\n\n    def _read_file')))
brk("C17", "_create_file: always truncating open", "W4", _sub(
    PT, 'self._f = h5py.File(filename, "x")', 'self._f = h5py.File(filename, "w")'))
brk("C17", "_create_file: append mode instead of exclusive create", "W4", _sub(
    PT, 'self._f = h5py.File(filename, "x")', 'self._f = h5py.File(filename, "a")'))
brk("C17", "read mode marked writable", "W4", _sub(
    PT, '        if mode == "read":\n            self._write = False', '        if mode == "read":\n            self._write = True'))
brk("C17", "user-named file always removable", "W5", _sub(
    PT, 'self._removeable = self._overwrite', 'self._removeable = True'))
brk("C17", "remove() ignores the guard", "W5", _sub(
    PT, '        if self._removeable:\n            os.remove(self._filename)', '        if True:\n            os.remove(self._filename)'))
brk("C17", "flag cleared early in compute_caps", "W6", _sub(
    PT, '        cap = np.array([1.0], dtype=NpDtype)\n        self.set_cap_tensor(length, cap)',
    '        cap = np.array([1.0], dtype=NpDtype)\n        self._f.attrs["writing"] = False\n        self.set_cap_tensor(length, cap)'))
ok("C17", "close(): equality test instead of truthiness", _sub(
    PT, 'if self._write and self._f.attrs["writing"]:', 'if self._write and self._f.attrs["writing"] == True:'))
ok("C17", "_read_file: flag read into a local first", _sub(
    PT, '        if self._f.attrs["writing"]:\n            warnings.warn(',
    '        still_writing = self._f.attrs["writing"]\n        if bool(still_writing):\n            warnings.warn('))

# ------------------------------------------------------------------ C18
brk("C18", "ChainControl composes existing @ new", "O1", _sub(
    CT, 'ssc["contr"] @ controls[ssc["site"]]', 'controls[ssc["site"]] @ ssc["contr"]'))
brk("C18", "Control.add_single (step) composes existing @ new", "O1", _sub(
    CT, 'control_operation @ self._step_controls[pre_post][time]', 'self._step_controls[pre_post][time] @ control_operation'))
brk("C18", "Control.add_single (float time) composes existing @ new", "O1", _sub(
    CT, 'control_operation @ self._time_controls[pre_post][time]', 'self._time_controls[pre_post][time] @ control_operation'))
brk("C18", "get_controls folds post step control on the right", "O1", _sub(
    CT, "post_control = self._step_controls['post'][step] @ post_control", "post_control = post_control @ self._step_controls['post'][step]"))
brk("C18", "ChainControl iterates newest first", "O1", _sub(
    CT, 'for ssc in ss_controls:', 'for ssc in reversed(ss_controls):'))
brk("C18", "compute_dynamics applies post control before recording", "O2", _multi(
    _sub(SD, '''            # -- apply post measurement control --
            if post_measurement_control is not None:
                current_node, current_edges = _apply_system_superoperator(
                    current_node, current_edges, post_measurement_control)

            # -- propagate one time step --
            first_half_prop, second_half_prop = propagators(step)
            pt_mpos = _get_pt_mpos(process_tensors, step)
''', '''            # -- propagate one time step --
            first_half_prop, second_half_prop = propagators(step)
            pt_mpos = _get_pt_mpos(process_tensors, step)
'''),
    _sub(SD, '''            if step == num_steps:
                break

            # -- extract current state -- update field --
            if record_all:
                caps = _get_caps(process_tensors, step)''', '''            if step == num_steps:
                break

            if post_measurement_control is not None:
                current_node, current_edges = _apply_system_superoperator(
                    current_node, current_edges, post_measurement_control)

            # -- extract current state -- update field --
            if record_all:
                caps = _get_caps(process_tensors, step)''')))
brk("C18", "compute_dynamics swaps pre and post", "O2", _sub(
    SD, '            pre_measurement_control, post_measurement_control = controls(step)\n\n            if pre_measurement_control is not None:\n                current_node, current_edges = _apply_system_superoperator(\n                    current_node, current_edges, pre_measurement_control)\n\n            if step == num_steps:\n                break\n\n            # -- extract current state -- update field --\n            if record_all:\n                caps = _get_caps(process_tensors, step)\n                state_tensor',
    '            post_measurement_control, pre_measurement_control = controls(step)\n\n            if pre_measurement_control is not None:\n                current_node, current_edges = _apply_system_superoperator(\n                    current_node, current_edges, pre_measurement_control)\n\n            if step == num_steps:\n                break\n\n            # -- extract current state -- update field --\n            if record_all:\n                caps = _get_caps(process_tensors, step)\n                state_tensor'))
brk("C18", "PtTebd.compute_step applies post controls after incrementing the step", "O2", _sub(
    TEBD, '        self._apply_controls(step=self.step, post=True)\n        self._step += 1\n', '        self._step += 1\n        self._apply_controls(step=self.step, post=True)\n'))
brk("C18", "PtTebd.compute_step records before pre controls", "O2", _sub(
    TEBD, '        self._apply_controls(step=self.step, post=False)\n        self._append_results()\n\n', '        self._append_results()\n        self._apply_controls(step=self.step, post=False)\n\n', count=1)
    if False else _sub(TEBD, '            self._t_mps.apply_nn_gate_layer(gate_layer)\n        self._apply_controls(step=self.step, post=False)\n        self._append_results()',
                       '            self._t_mps.apply_nn_gate_layer(gate_layer)\n        self._append_results()\n        self._apply_controls(step=self.step, post=False)'))
brk("C18", "float control times rounded without start_time", "O3", _sub(
    CT, "a = np.round((self._control_times['pre'] - start_time) / dt)", "a = np.round(self._control_times['pre'] / dt)"))
ok("C18", "ChainControl: hoist operands into temporaries", _sub(
    CT, '                    controls[ssc["site"]] = \\\n                        ssc["contr"] @ controls[ssc["site"]]',
    '                    controls[ssc["site"]] = np.matmul(\n                        ssc["contr"], controls[ssc["site"]])'))

# ------------------------------------------------------------------ C13
brk("C13", "Tempo._get_num_step truncates again", "G1", _sub(
    TE, 'end_step = int(np.round(\n            (end_time - self._start_time)/self._parameters.dt, decimals=9))',
    'end_step = int((end_time - self._start_time)/self._parameters.dt)'))
brk("C13", "Tempo._get_num_step rounds to nearest", "G1", _sub(
    TE, 'end_step = int(np.round(\n            (end_time - self._start_time)/self._parameters.dt, decimals=9))',
    'end_step = int(np.round((end_time - self._start_time)/self._parameters.dt))'))
brk("C13", "PtTempo step count uses floor division", "G1", _sub(
    PTT, 'tmp_num_steps = int(np.round(\n            (end_time - self._start_time)/self._parameters.dt, decimals=9))',
    'tmp_num_steps = int((end_time - self._start_time)//self._parameters.dt)'))
brk("C13", "_parse_times float index truncated", "G1", _sub(
    SD, 'index = int(np.round((times-start_time)/dt))', 'index = int((times-start_time)/dt)'))
brk("C13", "bath_dynamics correlation dimension truncated", "G1", _sub(
    BD, 'corr_mat_dim = int(np.round(final_time/dt))', 'corr_mat_dim = int(final_time/dt)'))
brk("C13", "final-only label from list length again", "G2", _sub(
    SD, '        times = [start_time + num_steps*dt]\n\n    return Dynamics(', '        times = [start_time + len(states)*dt]\n\n    return Dynamics('))
brk("C13", "gradient final-only label constant", "G2", _sub(
    GR, 'times = [start_time + num_steps*dt]', 'times = [start_time + dt]'))
brk("C13", "Tempo._time drops start_time", "G3", _sub(
    TE, '        return self._start_time + float(step)*self._parameters.dt\n\n    def _get_num_step(self,\n            start_step: int,\n            end_time: float) -> Tuple[int, int]:\n        """Return the number of steps required from start_step to reach\n        end_time"""\n        end_step = int(np.round(\n            (end_time - self._start_time)/self._parameters.dt, decimals=9))\n        num_step = max(0, end_step - start_step)\n        return num_step\n\n    @property',
    '        return float(step)*self._parameters.dt\n\n    def _get_num_step(self,\n            start_step: int,\n            end_time: float) -> Tuple[int, int]:\n        """Return the number of steps required from start_step to reach\n        end_time"""\n        end_step = int(np.round(\n            (end_time - self._start_time)/self._parameters.dt, decimals=9))\n        num_step = max(0, end_step - start_step)\n        return num_step\n\n    @property'))
brk("C13", "record_all axis starts one step late", "G3", _sub(
    SD, 'times = start_time + np.arange(len(states))*dt', 'times = start_time + (np.arange(len(states))+1)*dt'))
brk("C13", "PtTebd.time ignores start_step", "G3", _sub(
    TEBD, 'return self._start_time + self._parameters.dt*(step - self._start_step)', 'return self._start_time + self._parameters.dt*step'))
brk("C13", "Dynamics.add appends states instead of inserting at the index", "G4", _sub(
    DY, '        self._states.insert(index, tmp_state)', '        self._states.append(tmp_state)'))
brk("C13", "MeanFieldDynamics.add recomputes the field index after inserting the time", "G4", _sub(
    DY, '        tmp_field = _parse_field(field)\n        self._fields.insert(index, tmp_field)',
    '        tmp_field = _parse_field(field)\n        index = _find_list_index(self._times, tmp_time)\n        self._fields.insert(index, tmp_field)'))
ok("C13", "tolerant floor written with an additive epsilon", _sub(
    TE, 'end_step = int(np.round(\n            (end_time - self._start_time)/self._parameters.dt, decimals=9))',
    'quot = (end_time - self._start_time)/self._parameters.dt\n        end_step = int(np.floor(quot + 1.0e-9))'))
ok("C13", "final-only label via a temporary", _sub(
    SD, '        times = [start_time + num_steps*dt]\n\n    return Dynamics(', '        final_time = start_time + dt*num_steps\n        times = [final_time]\n\n    return Dynamics('))

# ------------------------------------------------------------------ C14 / C11
brk("C14", "TempoBackend.compute_step bumps the counter first again", "T3", _sub(
    TB, '        next_step = self._step + 1\n        prop_1, prop_2 = self._propagators(self._step)\n        self._state = self.compute_system_step(next_step, prop_1, prop_2)\n        self._step = next_step\n',
    '        self._step += 1\n        prop_1, prop_2 = self._propagators(self._step - 1)\n        self._state = self.compute_system_step(self._step, prop_1, prop_2)\n'))
brk("C14", "TempoBackend.compute_step records state before calling the propagators", "T3", _sub(
    TB, '        next_step = self._step + 1\n        prop_1, prop_2 = self._propagators(self._step)\n',
    '        next_step = self._step + 1\n        self._state = None\n        prop_1, prop_2 = self._propagators(self._step)\n'))
brk("C14", "TIBaseBackend.initialise appends before the coefficient request", "T3", _sub(
    TB, '            free_prop = np.dot(tensor, self._prop.T)\n', '            free_prop = np.dot(tensor, self._prop.T)\n            self.data.append(free_prop)\n'))
brk("C14", "GibbsTempo.compute takes a fixed number of steps", "T1", _sub(
    TE, '        num_step = max(\n            0, self._parameters.n_steps - 1 - self._backend_instance.step)', '        num_step = self._parameters.n_steps - 2'))
brk("C14", "PtTempo.compute steps before checking", "T1", _sub(
    PTT, '            while self._backend_instance.step \\\n                    < self._backend_instance.num_steps:\n                self._backend_instance.compute_step()\n',
    '            while self._backend_instance.compute_step():\n'))
brk("C14", "Tempo.compute ignores the steps already taken", "T1", _sub(
    TE, '        num_step = max(0, end_step - start_step)\n        return num_step\n\n    @property', '        num_step = max(0, end_step)\n        return num_step\n\n    @property'))
brk("C14", "PtTebd.compute loops a fixed count", "T1", _sub(
    TEBD, '            while self.step < tmp_end_step:\n                self.compute_step()', '            for _ in range(tmp_end_step):\n                self.compute_step()'))
brk("C14", "get_dynamics recomputes on every fetch", "T2", _sub(
    TE, '        """Returns the instance of Dynamics associated with the Tempo object.\n        """\n        return self._dynamics',
    '        """Returns the instance of Dynamics associated with the Tempo object.\n        """\n        self._backend_instance.compute_step()\n        return self._dynamics'))
brk("C14", "get_process_tensor updates unconditionally", "T2", _sub(
    PTT, '        if len(self._process_tensor) < self._backend_instance.num_steps:\n            self._backend_instance.update_process_tensor()', '        self._backend_instance.update_process_tensor()'))
brk("C14", "get_augmented_mps drops the last lambda", "T4", _sub(
    TEBD, '        for i in range(self._t_mps.n - 1):\n            lambdas.append', '        for i in range(self._t_mps.n - 2):\n            lambdas.append'))
brk("C14", "get_lambda returns the boundary identity", "T4", _sub(
    TEBDB, 'return self._lambdas[site+1].get_tensor()', 'return self._lambdas[site].get_tensor()'))
ok("C14", "TempoBackend.compute_step: temporaries renamed and hoisted", _sub(
    TB, '        next_step = self._step + 1\n        prop_1, prop_2 = self._propagators(self._step)\n        self._state = self.compute_system_step(next_step, prop_1, prop_2)\n        self._step = next_step\n',
    '        k = self._step\n        props = self._propagators(k)\n        new_state = self.compute_system_step(k + 1, props[0], props[1])\n        self._state = new_state\n        self._step = k + 1\n'))
ok("C14", "PtTempo.compute: while loop with hoisted backend", _sub(
    PTT, '            while self._backend_instance.step \\\n                    < self._backend_instance.num_steps:\n                self._backend_instance.compute_step()\n',
    '            while self._backend_instance.num_steps > self._backend_instance.step:\n                self._backend_instance.compute_step()\n'))

brk("C11", "GibbsTempo.compute takes a fixed number of steps", "K1", _sub(
    TE, '        num_step = max(\n            0, self._parameters.n_steps - 1 - self._backend_instance.step)', '        num_step = self._parameters.n_steps - 2'))
brk("C11", "get_state forgets to normalise", "K2", _sub(
    TE, '        state = state / state.trace()\n', ''))
brk("C11", "get_state normalises by the wrong matrix", "K2", _sub(
    TE, '        state = state / state.trace()\n', '        state = state / self._dynamics.states[0].trace()\n'))
brk("C11", "gibbs_tempo_compute returns the raw last state", "K2", _sub(
    TE, '    return gibbs_tempo.get_state()', '    return gibbs_tempo.get_dynamics().states[-1]'))
brk("C11", "time_step_length without n_steps", "K3", _sub(
    TE, 'return 1 / (temperature * self._n_steps)', 'return 1 / temperature'))
brk("C11", "new Gibbs states labelled one slice early", "K3", _sub(
    TE, 'self._dynamics.add(self._time(step+1), state)', 'self._dynamics.add(self._time(step), state)'))
brk("C11", "Gibbs loop bound one slice short", "K3", _sub(
    TE, '0, self._parameters.n_steps - 1 - self._backend_instance.step)', '0, self._parameters.n_steps - 2 - self._backend_instance.step)'))

# ------------------------------------------------------------------ C16
brk("C16", "set_initial_tensor loses its else branch", "X3", _sub(
    PT, '            self._initial_tensor = None\n        else:\n            self._initial_tensor = np.array(initial_tensor, dtype=NpDtype)',
    '            self._initial_tensor = None\n            self._initial_tensor = np.array(initial_tensor, dtype=NpDtype)'))
brk("C16", "reader looks for a dataset the writer never creates", "X1", _sub(
    PT, 'self._cap_tensors_shape = self._f["cap_tensors_shape"]', 'self._cap_tensors_shape = self._f["cap_tensor_shapes"]'))
brk("C16", "reader binds mpo shapes to the cap attribute", "X1", _multi(
    _sub(PT, 'self._mpo_tensors_shape = self._f["mpo_tensors_shape"]', 'self._mpo_tensors_shape = self._f["cap_tensors_shape"]'),
    _sub(PT, 'self._cap_tensors_shape = self._f["cap_tensors_shape"]', 'self._cap_tensors_shape = self._f["mpo_tensors_shape"]')))
brk("C16", "export forgets the caps", "X2", _sub(
    PT, '        for step, cap in enumerate(self._cap_tensors):\n            pt_file.set_cap_tensor(step, cap)\n', ''))
brk("C16", "export swaps the transforms", "X2", _sub(
    PT, '            transform_in=self._transform_in,\n            transform_out=self._transform_out,\n            name=self.name,\n            description=self.description)\n\n        pt_file.set_initial_tensor',
    '            transform_in=self._transform_out,\n            transform_out=self._transform_in,\n            name=self.name,\n            description=self.description)\n\n        pt_file.set_initial_tensor'))
brk("C16", "import drops dt", "X2", _sub(
    PT, '            dt=pt_file.dt,\n', ''))
brk("C16", "import copies transformed tensors", "X5", _sub(
    PT, 'mpo = pt_file.get_mpo_tensor(step, transformed=False)', 'mpo = pt_file.get_mpo_tensor(step)'))
brk("C16", "file get_mpo_tensor applies transform_out first", "X5", _sub(
    PT, '''            if self._transform_in is not None:
                tensor = np.dot(np.moveaxis(tensor, -2, -1),
                                self._transform_in.T)
                tensor = np.moveaxis(tensor, -1, -2)
            if self._transform_out is not None:
                tensor = np.dot(tensor, self._transform_out)
        return tensor

    def get_cap_tensor''', '''            if self._transform_out is not None:
                tensor = np.dot(tensor, self._transform_out)
            if self._transform_in is not None:
                tensor = np.dot(np.moveaxis(tensor, -2, -1),
                                self._transform_in.T)
                tensor = np.moveaxis(tensor, -1, -2)
        return tensor

    def get_cap_tensor'''))
brk("C16", "file get_mpo_tensor forgets the transpose of transform_in", "X5", _sub(
    PT, '''                tensor = np.dot(np.moveaxis(tensor, -2, -1),
                                self._transform_in.T)
                tensor = np.moveaxis(tensor, -1, -2)
            if self._transform_out is not None:
                tensor = np.dot(tensor, self._transform_out)
        return tensor

    def get_cap_tensor''', '''                tensor = np.dot(np.moveaxis(tensor, -2, -1),
                                self._transform_in)
                tensor = np.moveaxis(tensor, -1, -2)
            if self._transform_out is not None:
                tensor = np.dot(tensor, self._transform_out)
        return tensor

    def get_cap_tensor'''))
brk("C16", "shape stored after flattening", "X4", _sub(
    PT, '    shape[step] = tensor.shape\n    tensor = tensor.reshape(-1)\n', '    tensor = tensor.reshape(-1)\n    shape[step] = tensor.shape\n'))
brk("C16", "data written one slot off", "X4", _sub(
    PT, '    data[step] = tensor\n', '    data[step-1] = tensor\n'))
brk("C16", "file process tensor built without dt", "X6", _sub(
    PTT, '            hilbert_space_dimension=self._dimension,\n            dt=self._parameters.dt,\n            transform_in=transform_in,\n            transform_out=transform_out,\n            name=self.name,\n            description=self.description)\n\n    def _init_pt_tempo_backend',
    '            hilbert_space_dimension=self._dimension,\n            dt=None,\n            transform_in=transform_in,\n            transform_out=transform_out,\n            name=self.name,\n            description=self.description)\n\n    def _init_pt_tempo_backend'))
ok("C16", "set_initial_tensor written as a conditional expression on two paths", _sub(
    PT, '        if initial_tensor is None:\n            self._initial_tensor = None\n        else:\n            self._initial_tensor = np.array(initial_tensor, dtype=NpDtype)',
    '        if initial_tensor is not None:\n            self._initial_tensor = np.array(initial_tensor, dtype=NpDtype)\n            return\n        self._initial_tensor = None'))

# ------------------------------------------------------------------ C10
brk("C10", "import concurrent without futures", "I1", _sub(TEBDB, 'import concurrent.futures\n', 'import concurrent\n'))
brk("C10", "results consumed as completed", "I2", _sub(
    TEBDB, '                with concurrent.futures.ThreadPoolExecutor() as executor:\n                    output_datas = executor.map(apply_nn_gate, input_datas)',
    '                with concurrent.futures.ThreadPoolExecutor() as executor:\n                    futs = [executor.submit(apply_nn_gate, d) for d in input_datas]\n                    output_datas = [f.result() for f in concurrent.futures.as_completed(futs)]'))
ok("C10", "snapshot taken lazily during submission (still before any write-back)", _sub(
    TEBDB, '            input_datas = []\n            for gate in gate_layer.gates:\n                input_datas.append(self._apply_nn_gate_get_data(gate))\n',
    '            input_datas = (self._apply_nn_gate_get_data(gate) for gate in gate_layer.gates)\n'))
brk("C10", "bound method submitted to the pool", "I2", _sub(
    TEBDB, '                with concurrent.futures.ThreadPoolExecutor() as executor:\n                    output_datas = executor.map(apply_nn_gate, input_datas)',
    '                with concurrent.futures.ThreadPoolExecutor() as executor:\n                    output_datas = executor.map(self.apply_nn_gate, gate_layer.gates)'))
ok("C10", "write-back of each ordered result while later workers still run on their copies", _sub(
    TEBDB, '                with concurrent.futures.ThreadPoolExecutor() as executor:\n                    output_datas = executor.map(apply_nn_gate, input_datas)',
    '                with concurrent.futures.ThreadPoolExecutor() as executor:\n                    output_datas = executor.map(apply_nn_gate, input_datas)\n                    for output_data in output_datas:\n                        self._apply_nn_gate_replace_gam_lam_gam(*output_data)\n                    output_datas = []'))
brk("C10", "snapshot hands out the live lambda", "I2", _sub(
    TEBDB, '        lam_m = self._lambdas[site_l+1].copy()', '        lam_m = self._lambdas[site_l+1]'))
brk("C10", "unknown parallel mode falls back silently", "I3", _sub(
    TEBDB, '            else:\n                raise NotImplementedError("Parallelisation method " \\\n                    + f"\'{self._parallel}\' is not implementedds!")',
    '            else:\n                output_datas = [apply_nn_gate(d) for d in input_datas]'))
brk("C10", "worker keeps a module-level cache", "I2", _multi(
    _sub(TEBDB, 'NoneType = type(None)\n', 'NoneType = type(None)\n_LAST = {}\n'),
    _sub(TEBDB, '    return _apply_nn_gate(*input_data)', '    _LAST["site"] = input_data[0]\n    return _apply_nn_gate(*input_data)')))

# ------------------------------------------------------------------ C20
brk("C20", "AugmentedMPS keeps the caller's layout", "A4", _sub(MM, 'np.array(g, dtype=NpDtype, order="C")', 'np.array(g, dtype=NpDtype)'))
brk("C20", "compute_dynamics reshapes the caller's state in place", "A5", _sub(
    SD, '    initial_ndarray = initial_state.reshape(hs_dim**2)\n    initial_ndarray.shape = tuple([1]*num_envs+[hs_dim**2])\n    current_node = tn.Node(initial_ndarray)\n    current_edges = current_node[:]\n\n    states = []\n    title = "--> Compute dynamics:"',
    '    initial_ndarray = initial_state\n    initial_ndarray.shape = tuple([1]*num_envs+[hs_dim**2])\n    current_node = tn.Node(initial_ndarray)\n    current_edges = current_node[:]\n\n    states = []\n    title = "--> Compute dynamics:"'))
brk("C20", "Dynamics.expectations normalises the caller's operator in place", "A5", _sub(
    DY, '        if len(self) == 0:\n            return None, None\n        if operator is None:', '        if len(self) == 0:\n            return None, None\n        if operator is not None:\n            operator /= 1.0\n        if operator is None:'))
brk("C20", "System keeps the caller's Hamiltonian and scales it", "A5", _sub(
    SY, '    def get_unitary_propagators(self, dt, start_time, subdiv_limit, epsrel):\n        """Prepare propagator functions for the system. """\n',
    '    def get_unitary_propagators(self, dt, start_time, subdiv_limit, epsrel):\n        """Prepare propagator functions for the system. """\n        dt *= 1\n'))
brk("C20", "add_singleton called in place on caller data", "A5", _sub(
    SD, '    initial_ndarray = initial_state.reshape(hs_dim**2)\n    initial_ndarray.shape = tuple([1]*num_envs+[hs_dim**2])\n    current_node = tn.Node(initial_ndarray)\n    current_edges = current_node[:]\n\n    states = []\n    title = "--> Compute dynamics:"',
    '    from oqupy.util import add_singleton\n    add_singleton(initial_state, 0, copy=False)\n    initial_ndarray = initial_state.reshape(hs_dim**2)\n    initial_ndarray.shape = tuple([1]*num_envs+[hs_dim**2])\n    current_node = tn.Node(initial_ndarray)\n    current_edges = current_node[:]\n\n    states = []\n    title = "--> Compute dynamics:"'))
brk("C20", "backend config default gets written", "A6", _sub(
    TE, '        if backend_config is None:\n            self._backend_config = TEMPO_BACKEND_CONFIG\n        else:\n            self._backend_config = backend_config\n\n        self._dynamics = None\n        self._backend_instance = None\n\n        assert',
    '        if backend_config is None:\n            self._backend_config = TEMPO_BACKEND_CONFIG\n        else:\n            self._backend_config = backend_config\n        self._backend_config["unique"] = unique\n\n        self._dynamics = None\n        self._backend_instance = None\n\n        assert'))
brk("C20", "memoise TimeDependentSystem-like public attribute", "A1", _sub(
    BC, '    def spectral_density(self, omega: ArrayLike) -> ArrayLike:', '    @lru_cache(maxsize=64)\n    def spectral_density(self, omega: ArrayLike) -> ArrayLike:'))
brk("C20", "new closure over self stored on a copied class", "A2", _sub(
    BC, '        self.correlation_function = tmp_correlation_function\n', '        self.correlation_function = tmp_correlation_function\n        self._conj = lambda tau: np.conj(self.correlation_function(tau))\n'))
ok("C20", "AugmentedMPS uses ascontiguousarray", _sub(MM, 'np.array(g, dtype=NpDtype, order="C")', 'np.ascontiguousarray(np.array(g, dtype=NpDtype))'))

# ------------------------------------------------------------------ C15
brk("C15", "TimeDependentSystem propagators drop start_time (sampled variant)", "U1", _sub(
    SY, '''                the time step `step`  """
                t = start_time + step * dt
                first_step = expm(self.liouvillian(t+dt/4.0)*dt/2.0)''', '''                the time step `step`  """
                t = step * dt
                first_step = expm(self.liouvillian(t+dt/4.0)*dt/2.0)'''))
brk("C15", "second half propagator integrates from a start-free time", "U1", _sub(
    SY, '''                second_step = expm(integrate.quad_vec(self.liouvillian,
                                                      a=t+dt/2.0,
                                                      b=t+dt,''', '''                second_step = expm(integrate.quad_vec(self.liouvillian,
                                                      a=step*dt+dt/2.0,
                                                      b=t+dt,'''))
brk("C15", "field derivative evaluated at step*dt", "U1", _sub(
    TE, '''        r"""Compute the field derivative for the time step `step`. """
        t = self._time(step)''', '''        r"""Compute the field derivative for the time step `step`. """
        t = float(step) * self._parameters.dt'''))
brk("C15", "MeanFieldTempo._time doubles the start time", "U1", _sub(
    TE, '''        return self._start_time + float(step)*self._parameters.dt

    def _get_num_step(self,
            start_step: int,
            end_time: float) -> Tuple[int, int]:
        """Return the number of steps required from start_step to reach
        end_time"""
        end_step = int(np.round(
            (end_time - self._start_time)/self._parameters.dt, decimals=9))
        num_step = max(0, end_step - start_step)
        return num_step

def _check_time''', '''        return 2*self._start_time + float(step)*self._parameters.dt

    def _get_num_step(self,
            start_step: int,
            end_time: float) -> Tuple[int, int]:
        """Return the number of steps required from start_step to reach
        end_time"""
        end_step = int(np.round(
            (end_time - self._start_time)/self._parameters.dt, decimals=9))
        num_step = max(0, end_step - start_step)
        return num_step

def _check_time'''))
brk("C15", "float correlation times rounded without start_time", "U1", _sub(
    SD, 'index_end = int(np.round((times[1] - start_time) / dt))', 'index_end = int(np.round(times[1] / dt))'))
brk("C15", "control times rounded without start_time (post)", "U1", _sub(
    CT, "a = np.round((self._control_times['post'] - start_time) / dt)", "a = np.round(self._control_times['post'] / dt)"))
brk("C15", "compute_dynamics_with_field field time without start", "U1", _sub(
    SD, '            t = start_time + step * dt\n\n            # -- get pre & post', '            t = step * dt\n\n            # -- get pre & post'))
brk("C15", "nested correlation call forgets the start time", "U2", _sub(
    SD, '        control=control,\n        start_time=start_time,\n        initial_state=initial_state,', '        control=control,\n        initial_state=initial_state,'))
brk("C15", "controls closure forgets the start time", "U2", _sub(
    SD, '''    def controls(step: int):
        return control.get_controls(
            step,
            dt=dt,
            start_time=start_time)''', '''    def controls(step: int):
        return control.get_controls(
            step,
            dt=dt)'''))
brk("C15", "dt and start_time swapped at get_propagators", "U2", _sub(
    SD, '    propagators = system.get_propagators(dt, start_time, subdiv_limit,\n                                       liouvillian_epsrel)', '    propagators = system.get_propagators(start_time, dt, subdiv_limit,\n                                       liouvillian_epsrel)'))
ok("C15", "propagator time via a helper temporary", _sub(
    SY, '''                the time step `step`  """
                t = start_time + step * dt
                first_step = expm(self.liouvillian(t+dt/4.0)*dt/2.0)''', '''                the time step `step`  """
                offset = step * dt
                t = offset + start_time
                first_step = expm(self.liouvillian(t+dt/4.0)*dt/2.0)'''))

# ------------------------------------------------------------------ C09
brk("C09", "compute_dynamics_with_field passes the time of the new step again", "F1", _sub(
    SD, '                field = compute_field(\n                    t - dt, dt, previous_state_list, field, state_list)', '                field = compute_field(\n                    t, dt, previous_state_list, field, state_list)'))
brk("C09", "final field uses the new time", "F1", _sub(
    SD, 'final_field = compute_field(t - dt, dt, previous_state_list, field,', 'final_field = compute_field(t, dt, previous_state_list, field,'))
brk("C09", "mean-field TEMPO evaluates rk1 with the next states", "F1", _sub(
    TB, '        next_field = self._compute_field(current_step,\n                                         current_state_list, current_field,\n                                         next_state_list)',
    '        next_field = self._compute_field(current_step,\n                                         next_state_list, current_field,\n                                         next_state_list)'))
brk("C09", "mean-field TEMPO passes next_step to the field update", "F1", _sub(
    TB, '        next_field = self._compute_field(current_step,\n', '        next_field = self._compute_field(next_step,\n'))
ok("C09", "propagator field derivative from previous_state_list (already equal to state_list there)", _sub(
    SD, '''                                    mean_field_system.field_eom(t, state_list,
                                                                field))''', '''                                    mean_field_system.field_eom(t, previous_state_list,
                                                                field))'''))
brk("C09", "Euler instead of Heun in MeanFieldTempo", "F2", _sub(
    TE, '''        rk2 = self._mean_field_system.field_eom(t + dt, next_state_list,
                                                field + rk1 * dt)
        return field + dt * (rk1 + rk2) / 2''', '''        rk2 = self._mean_field_system.field_eom(t + dt, next_state_list,
                                                field + rk1 * dt)
        return field + dt * rk1'''))
brk("C09", "rk2 at the midpoint time", "F2", _sub(
    SD, '''        rk2 = mean_field_system.field_eom(t + dt, next_state_list,
                                          field + rk1 * dt)''', '''        rk2 = mean_field_system.field_eom(t + dt/2, next_state_list,
                                          field + rk1 * dt)'''))
brk("C09", "rk2 uses the unpredicted field", "F2", _sub(
    SD, '''        rk2 = mean_field_system.field_eom(t + dt, next_state_list,
                                          field + rk1 * dt)''', '''        rk2 = mean_field_system.field_eom(t + dt, next_state_list,
                                          field)'''))
ok("C09", "Heun written with halves", _sub(
    TE, '        return field + dt * (rk1 + rk2) / 2\n\n    def _compute_field_derivative', '        return field + 0.5 * dt * rk1 + 0.5 * dt * rk2\n\n    def _compute_field_derivative'))

# ------------------------------------------------------------------ C07
brk("C07", "dt no longer forwarded to the ordered correlations", "V1", _sub(SD, '        "dt": dt_,\n', ''))
brk("C07", "raw dt forwarded instead of the labelling one", "V1", _sub(SD, '        "dt": dt_,\n', '        "dt": dt,\n'))
brk("C07", "indices by tail slice again", "V2", _sub(SD, 'inds = sch_indices[i][-1][mask]', 'inds = sch_indices[i][-1][-len(lt):]'))
brk("C07", "indices by a different mask", "V2", _sub(SD, 'inds = sch_indices[i][-1][mask]', 'inds = sch_indices[i][-1][last_times > ft_max]'))
brk("C07", "descending interval by slicing again", "V3", _sub(
    SD, 'ret_times = np.arange(index_start, index_end+direction, direction)', 'ret_times = np.arange(\n                max_step + 1)[index_start:index_end+direction:direction]'))
brk("C07", "anti-ordered result not transposed", "V4", _sub(SD, 'corr = (corr[0][::-1], corr[-1].transpose())', 'corr = (corr[0][::-1], corr[-1])'))
brk("C07", "anti-ordered time specs not swapped", "V4", _sub(SD, '        ops_times = [times_b, times_a]', '        ops_times = [times_a, times_b]'))
brk("C07", "result array initialised with zeros", "V5", _sub(SD, '    ret_correlations[:] = np.nan + 1.0j*np.nan\n', '    ret_correlations[:] = 0.0\n'))
ok("C07", "mask hoisted under another name", _multi(
    _sub(SD, '                mask = last_times >= ft_max\n                lt = last_times[mask]', '                keep = last_times >= ft_max\n                lt = last_times[keep]'),
    _sub(SD, 'inds = sch_indices[i][-1][mask]', 'inds = sch_indices[i][-1][keep]')))

# ------------------------------------------------------------------ C05 / C06
brk("C05", "general eigensolver again", "E1", _sub(BA, 'w, v = np.linalg.eigh(tmp_coupling_operator)', 'w, v = np.linalg.eig(tmp_coupling_operator)'))
brk("C05", "scipy general eig", "E1", _multi(
    _sub(BA, 'import numpy as np\n', 'import numpy as np\nfrom scipy import linalg as sla\n'),
    _sub(BA, 'w, v = np.linalg.eigh(tmp_coupling_operator)', 'w, v = sla.eig(tmp_coupling_operator)')))
brk("C05", "TEMPO builds both superoperators the same way", "E2", _sub(
    TB, '''        self._super_u_dagg = op.left_right_super(
            self._unitary_transform.conjugate().T,
            self._unitary_transform)''', '''        self._super_u_dagg = op.left_right_super(
            self._unitary_transform,
            self._unitary_transform.conjugate().T)'''))
brk("C05", "PT-TEMPO file variant drops the conjugate", "E2", _sub(
    PTT, '''            transform_in = left_right_super(unitary.conjugate().T,
                                            unitary).T
            transform_out = left_right_super(unitary,
                                             unitary.conjugate().T).T
        else:
            transform_in = None
            transform_out = None

        if overwrite:''', '''            transform_in = left_right_super(unitary.T,
                                            unitary).T
            transform_out = left_right_super(unitary,
                                             unitary.conjugate().T).T
        else:
            transform_in = None
            transform_out = None

        if overwrite:'''))
brk("C05", "PT-TEMPO hands the transforms over swapped", "E2", _sub(
    PTT, '''            dt=self._parameters.dt,
            transform_in=transform_in,
            transform_out=transform_out,
            name=self.name,
            description=self.description)

    def _init_file_process_tensor''', '''            dt=self._parameters.dt,
            transform_in=transform_out,
            transform_out=transform_in,
            name=self.name,
            description=self.description)

    def _init_file_process_tensor'''))
ok("C05", "adjoint spelled conj().T", _sub(
    TB, '''        self._super_u_dagg = op.left_right_super(
            self._unitary_transform.conjugate().T,
            self._unitary_transform)''', '''        self._super_u_dagg = op.left_right_super(
            self._unitary_transform.T.conj(),
            self._unitary_transform)'''))

brk("C06", "west map built from both key columns", "R1", _sub(
    BA, 'self._west_degeneracy_map = _row_degeneracy([self._coupling_comm])', 'self._west_degeneracy_map = _row_degeneracy([self._coupling_comm,\n                                                     self._coupling_acomm])'))
brk("C06", "north map built from the commutator only", "R1", _sub(
    BA, '''        self._north_degeneracy_map = _row_degeneracy([self._coupling_comm,
                                                      self._coupling_acomm])''', '''        self._north_degeneracy_map = _row_degeneracy([self._coupling_comm])'''))
brk("C06", "Tempo selector: pair order swapped", "R1", _sub(
    TE, '''            tmp_deg_positions = [tmp_north_deg_positions,
                                 tmp_west_deg_positions]
        else:
            tmp_deg_positions = None

        return influence_matrix(''', '''            tmp_deg_positions = [tmp_west_deg_positions,
                                 tmp_north_deg_positions]
        else:
            tmp_deg_positions = None

        return influence_matrix('''))
brk("C06", "PtTempo representative count from the other map", "R1", _sub(
    PTT, '''                self._bath.west_degeneracy_map == i)[0][0] for i in \\
                    range(np.max(self._bath.west_degeneracy_map)+1)])''', '''                self._bath.west_degeneracy_map == i)[0][0] for i in \\
                    range(np.max(self._bath.north_degeneracy_map)+1)])'''))
brk("C06", "influence_matrix unpacks west first", "R1", _sub(
    TE, '            north_deg_positions, west_deg_positions = deg_positions\n', '            west_deg_positions, north_deg_positions = deg_positions\n'))
brk("C06", "influence_matrix dk=0 reduced with west representatives", "R1", _sub(
    TE, '            north_deg_positions = deg_positions[0]\n', '            north_deg_positions = deg_positions[1]\n'))
brk("C06", "PtTempo sum vectors sized by the other map", "R1", _sub(
    PTT, '''            sum_west = np.ones(np.max(self._bath.west_degeneracy_map)+1,
                               dtype=float)
            degeneracy_maps = [self._bath.north_degeneracy_map,''', '''            sum_west = np.ones(np.max(self._bath.north_degeneracy_map)+1,
                               dtype=float)
            degeneracy_maps = [self._bath.north_degeneracy_map,'''))
brk("C06", "TEMPO backend unpacks the maps in the wrong order", "R1", _sub(
    TB, '            north_degeneracy_map, west_degeneracy_map =\\\n                    self._degeneracy_maps', '            west_degeneracy_map, north_degeneracy_map =\\\n                    self._degeneracy_maps'))
brk("C06", "PT backend reads the reduced influence at the west class", "R1", _sub(
    PTB, '''                        tmp_mps[i1][north_degeneracy_map[i1]] = \\
                            infl[north_degeneracy_map[i1]]/ scale''', '''                        tmp_mps[i1][north_degeneracy_map[i1]] = \\
                            infl[west_degeneracy_map[i1]]/ scale'''))
brk("C06", "_row_degeneracy groups columns instead of rows", "R2", _sub(
    BA, 'np.unique(mat.T,return_inverse=True,axis=0)[1]', 'np.unique(mat,return_inverse=True,axis=0)[1]'))
brk("C06", "_row_degeneracy without rounding", "R2", _sub(
    BA, '    mat = np.array(matrix).round(decimals=DEFAULT_TOLERANCE_DEGENERACY)\n', '    mat = np.array(matrix)\n'))
ok("C06", "backend locals renamed", _multi(
    _sub(PTB, 'north_degeneracy_map, west_degeneracy_map = self._degeneracy_maps', 'nmap, wmap = self._degeneracy_maps'),
    _sub(PTB, 'north_degeneracy_map', 'nmap', count=100), _sub(PTB, 'west_degeneracy_map', 'wmap', count=100)))

# ------------------------------------------------------------------ C12
brk("C12", "rectangle closed form with a wrong argument", "L1", _sub(
    BC, '- self.eta_function(time_2 - delta, **kwargs) \\', '- self.eta_function(time_2 + delta, **kwargs) \\'))
brk("C12", "rectangle closed form with a wrong sign", "L1", _sub(
    BC, '+ self.eta_function(time_1 - delta, **kwargs)\n        else:', '- self.eta_function(time_1 - delta, **kwargs)\n        else:'))
brk("C12", "square closed form with coefficient 1", "L1", _sub(
    BC, '- 2.0 * self.eta_function(time_1, **kwargs) \\', '- self.eta_function(time_1, **kwargs) \\'))
brk("C12", "quadrature rectangle integrates to 2*delta", "L1", _sub(
    BC, "'rectangle': lambda x: delta, }", "'rectangle': lambda x: 2*delta, }"))
brk("C12", "Gibbs coefficients use the triangle for k == 1", "L1", _sub(
    TE, 'shape = "upper-triangle" if k==0 else "square"', 'shape = "upper-triangle" if k==1 else "square"'))
brk("C12", "influence_matrix uses the triangle away from zero", "L1", _sub(
    TE, '    if dk == 0:\n        time_1 = 0.0\n        time_2 = None\n        shape = "upper-triangle"', '    if dk == 0:\n        time_1 = dt\n        time_2 = None\n        shape = "upper-triangle"'))
brk("C12", "unknown shape name at a call site", "L2", _sub(TE, '        shape = "rectangle"\n', '        shape = "rect"\n'))
brk("C12", "time_2 passed with the square shape", "L2", _sub(
    TE, '        time_1 = float(dk) * dt\n        time_2 = None\n        shape = "square"', '        time_1 = float(dk) * dt\n        time_2 = time_1 + dt\n        shape = "square"'))
brk("C12", "Matsubara 2D integral returned complex", "L3", _sub(
    BC, '        if matsubara:\n            integral = integral.real\n        return integral\n\n\nclass PowerLawSD', '        return integral\n\n\nclass PowerLawSD'))
brk("C12", "eta_function skips the tail for the gaussian cutoff", "L4", _sub(
    BC, '''        if self.cutoff_type != "hard":
            # integrate the tail in units of the cutoff frequency: the
            # quadrature over a semi-infinite range is not scale covariant
            integral += self.cutoff * _complex_integral(
                lambda x: integrand(self.cutoff * x),
                a=1.0,
                b=np.inf,
                epsrel=epsrel,
                limit=subdiv_limit)
        if matsubara:
            integral = integral.real
        return -integral''', '''        if self.cutoff_type == "exponential":
            integral += self.cutoff * _complex_integral(
                lambda x: integrand(self.cutoff * x),
                a=1.0,
                b=np.inf,
                epsrel=epsrel,
                limit=subdiv_limit)
        if matsubara:
            integral = integral.real
        return -integral'''))
brk("C12", "eta_function loses the overflow guard branch", "L4", _sub(
    BC, '''                if np.exp(-w / self.temperature) > np.finfo(float).eps:
                    inte = self._spectral_density(w) / w ** 2 \\''', '''                if True:
                    inte = self._spectral_density(w) / w ** 2 \\'''))

# ------------------------------------------------------------------ C08
brk("C08", "backward pass applies environments in forward order", "H2", _sub(
    GR, 'current_node, current_edges, pt_mpos, reverse=True)', 'current_node, current_edges, pt_mpos)'))
brk("C08", "bond legs joined by axis position with reversed order", "H2", _sub(
    GR, 'fwd_edges[i] ^ edge_dict[current_edges[i]]', 'fwd_edges[i] ^ backprop_tensor[i]'))
brk("C08", "second half propagator not transposed in the backward pass", "H2", _sub(
    GR, 'current_node, current_edges, second_half_prop.T)', 'current_node, current_edges, second_half_prop)'))
brk("C08", "backward pass swaps the two half propagators", "H2", _multi(
    _sub(GR, 'current_node, current_edges, second_half_prop.T)', 'current_node, current_edges, first_half_prop.T)'),
    _sub(GR, 'current_node, current_edges, first_half_prop.T)\n\n            if post_measurement_control', 'current_node, current_edges, second_half_prop.T)\n\n            if post_measurement_control')))
brk("C08", "backward pass applies pre control before post control", "H2", _sub(
    GR, '''            if post_measurement_control is not None:
                current_node, current_edges = _apply_system_superoperator(
                    current_node, current_edges, post_measurement_control.T)

            if pre_measurement_control is not None:
                current_node, current_edges = _apply_system_superoperator(
                    current_node, current_edges, pre_measurement_control.T)

            forwardprop_tensor = forwardprop_derivs_list[step-1]''', '''            if pre_measurement_control is not None:
                current_node, current_edges = _apply_system_superoperator(
                    current_node, current_edges, pre_measurement_control.T)

            if post_measurement_control is not None:
                current_node, current_edges = _apply_system_superoperator(
                    current_node, current_edges, post_measurement_control.T)

            forwardprop_tensor = forwardprop_derivs_list[step-1]'''))
brk("C08", "backprop MPO swaps only the system legs", "H7", _sub(
    SD, '        pt_mpo = np.swapaxes(pt_mpo, 0, 1) # internal bond legs\n', ''))
brk("C08", "derivative propagators read the wrong half step", "H1", _sub(
    SY, '''            pre_params=parameters[2*step]
            post_params= parameters[2*step+1]
            pre_prop_derivs=pd(pre_params)''', '''            pre_params=parameters[2*step+1]
            post_params= parameters[2*step]
            pre_prop_derivs=pd(pre_params)'''))
brk("C08", "propagators read parameters[2*step+2] for the second half", "H1", _sub(
    SY, 'post_liou=self.liouvillian(*(list(parameters[2*step+1][:])))', 'post_liou=self.liouvillian(*(list(parameters[2*step+2][:])))'))
brk("C08", "chain rule pairs the derivative with its own half propagator", "H1", _sub(
    GR, '''                total_derivs[2*i+1][j] = combine_derivs(
                    adjoint_tensor[i],
                    first_half_prop.T,
                    second_half_prop_derivs[j].T)''', '''                total_derivs[2*i+1][j] = combine_derivs(
                    adjoint_tensor[i],
                    first_half_prop_derivs[j].T,
                    second_half_prop.T)'''))
brk("C08", "forward tensor stored before the post control", "H3", _multi(
    _sub(GR, '''            forwardprop_derivs_list.append(
                tn.replicate_nodes([current_node])[0])

''', ''),
    _sub(GR, '''            # -- apply post measurement control --
            if post_measurement_control is not None:
                current_node, current_edges = _apply_system_superoperator(
                    current_node, current_edges, post_measurement_control)

            # -- propagate one time step --
            first_half_prop, second_half_prop = propagators(step)

            pt_mpos = _get_pt_mpos(process_tensors, step)
            mpo_list.append(pt_mpos)''', '''            forwardprop_derivs_list.append(
                tn.replicate_nodes([current_node])[0])

            # -- apply post measurement control --
            if post_measurement_control is not None:
                current_node, current_edges = _apply_system_superoperator(
                    current_node, current_edges, post_measurement_control)

            # -- propagate one time step --
            first_half_prop, second_half_prop = propagators(step)

            pt_mpos = _get_pt_mpos(process_tensors, step)
            mpo_list.append(pt_mpos)''')))
ok("C08", "reversal written with reversed()", _sub(
    SD, '''    indexed_pt_mpos = list(enumerate(pt_mpos))
    if reverse:
        # backpropagation: the system leg passes the environments in the
        # opposite order (each MPO still attaches to its own bond leg)
        indexed_pt_mpos.reverse()
''', '''    indexed_pt_mpos = list(enumerate(pt_mpos))
    if reverse:
        indexed_pt_mpos = list(reversed(indexed_pt_mpos))
'''))

# ------------------------------------------------------------------ C02
brk("C02", "PT-TEMPO takes comm for acomm", "S1", _sub(
    PTT, '            coupling_acomm=self._bath.coupling_acomm,\n            coupling_comm=self._bath.coupling_comm,', '            coupling_acomm=self._bath.coupling_comm,\n            coupling_comm=self._bath.coupling_acomm,'))
brk("C02", "Tempo influence shifts dk", "S1", _sub(
    TE, '        return influence_matrix(\n            dk,\n            parameters=self._parameters,\n            correlations=self._correlations,', '        return influence_matrix(\n            dk + 0,\n            parameters=self._parameters,\n            correlations=self._correlations,')
    if False else _sub(TE, '        return influence_matrix(\n            dk,\n            parameters=self._parameters,\n            correlations=self._correlations,', '        return influence_matrix(\n            abs(dk),\n            parameters=self._parameters,\n            correlations=self._correlations,'))
brk("C02", "MeanFieldTempo ignores unique for deg_positions", "S1", _sub(
    TE, '''                coupling_comm=bath.coupling_comm,
                deg_positions=tmp_deg_positions)''', '''                coupling_comm=bath.coupling_comm,
                deg_positions=None)'''))
brk("C02", "TempoBackend propagator index off by one", "S2", _sub(
    TB, 'prop_1, prop_2 = self._propagators(self._step)', 'prop_1, prop_2 = self._propagators(next_step)'))
brk("C02", "compute_dynamics uses the MPO of the next step", "S2", _sub(
    SD, '            pt_mpos = _get_pt_mpos(process_tensors, step)\n\n            current_node, current_edges = _apply_system_superoperator(\n                current_node, current_edges, first_half_prop)', '            pt_mpos = _get_pt_mpos(process_tensors, step+1)\n\n            current_node, current_edges = _apply_system_superoperator(\n                current_node, current_edges, first_half_prop)'))
brk("C02", "PT-TEBD uses the MPO of the current step", "S2", _sub(
    TEBDB, 'pt_tensor = process_tensors[site].get_mpo_tensor(step-1)', 'pt_tensor = process_tensors[site].get_mpo_tensor(step)'))
brk("C02", "mean-field TEMPO mixes up dt and start_time", "S3", _sub(
    TE, '''        propagators_list = [system.get_propagators(
                self._parameters.dt,
                self._start_time,''', '''        propagators_list = [system.get_propagators(
                self._start_time,
                self._parameters.dt,'''))
brk("C02", "Tempo hands dkmax over as epsrel slot", "S3", _sub(
    TE, '                sum_west,\n                dkmax,\n                epsrel,\n                config=self._backend_config,\n                degeneracy_maps=degeneracy_maps,\n                dim=dim)', '                sum_west,\n                epsrel,\n                dkmax,\n                config=self._backend_config,\n                degeneracy_maps=degeneracy_maps,\n                dim=dim)'))
brk("C02", "PT-TEMPO memory from a constant", "S4", _sub(
    PTT, '        dkmax = self._parameters.dkmax\n        if dkmax is None:\n            dkmax = self._num_steps', '        dkmax = self._parameters.dkmax\n        if dkmax is None:\n            dkmax = 100'))

# ------------------------------------------------------------------ later additions
brk("C19", "update arms a second timer without cancelling the first", "P3", _sub(
    UT, '            self._timer.cancel()\n            self._timer = Timer(1.0, self.update)', '            self._timer = Timer(1.0, self.update)'))
brk("C17", "export closes the file in a finally clause", "W7", _multi(
    _sub(PT, '        pt_file.set_initial_tensor(self._initial_tensor)\n        for step, mpo in enumerate(self._mpo_tensors):\n            pt_file.set_mpo_tensor(step, mpo)\n        for step, cap in enumerate(self._cap_tensors):\n            pt_file.set_cap_tensor(step, cap)\n        pt_file.close()',
         '        try:\n            pt_file.set_initial_tensor(self._initial_tensor)\n            for step, mpo in enumerate(self._mpo_tensors):\n                pt_file.set_mpo_tensor(step, mpo)\n            for step, cap in enumerate(self._cap_tensors):\n                pt_file.set_cap_tensor(step, cap)\n        finally:\n            pt_file.close()')))
brk("C17", "FileProcessTensor grows a __del__ that closes", "W7", _sub(
    PT, '    def remove(self):\n        """Delete the HDF5 file. """', '    def __del__(self):\n        self.close()\n\n    def remove(self):\n        """Delete the HDF5 file. """'))
brk("C14", "Tempo.compute re-initialises for an earlier end time", "T5", _sub(
    TE, '        start_step = self._backend_instance.step\n        num_step = self._get_num_step(start_step, tmp_end_time)\n\n        progress = get_progress(progress_type)\n        title = "--> TEMPO computation:"',
    '        if tmp_end_time < self._time(self._backend_instance.step):\n            self._backend_instance.initialize()\n        start_step = self._backend_instance.step\n        num_step = self._get_num_step(start_step, tmp_end_time)\n\n        progress = get_progress(progress_type)\n        title = "--> TEMPO computation:"'))
brk("C14", "MeanFieldTempo.compute creates a fresh dynamics object on every call", "T5", _sub(
    TE, '            step, system_states, field = self._backend_instance.initialize()\n            self._init_dynamics()\n', '            step, system_states, field = self._backend_instance.initialize()\n        self._init_dynamics()\n        if True:\n'))
brk("C18", "compute_dynamics leaves the loop before the last pre-control", "O2", _multi(
    _sub(SD, '''            pre_measurement_control, post_measurement_control = controls(step)

            if pre_measurement_control is not None:
                current_node, current_edges = _apply_system_superoperator(
                    current_node, current_edges, pre_measurement_control)

            if step == num_steps:
                break

            # -- extract current state -- update field --
            if record_all:
                caps = _get_caps(process_tensors, step)
                state_tensor''', '''            if step == num_steps:
                break

            pre_measurement_control, post_measurement_control = controls(step)

            if pre_measurement_control is not None:
                current_node, current_edges = _apply_system_superoperator(
                    current_node, current_edges, pre_measurement_control)

            # -- extract current state -- update field --
            if record_all:
                caps = _get_caps(process_tensors, step)
                state_tensor''')))
brk("C18", "Control.add_single stores post controls under 'pre'", "O3", _sub(
    CT, "        if post:\n            pre_post = 'post'\n        else:\n            pre_post = 'pre'", "        if post:\n            pre_post = 'pre'\n        else:\n            pre_post = 'post'"))
brk("C18", "get_controls returns (post, pre)", "O3", _sub(CT, '        return pre_control, post_control', '        return post_control, pre_control'))
brk("C18", "ChainControl.get_single_site_controls picks the post list for pre", "O3", _sub(
    CT, '        if not post:\n            ss_controls = self._single_site_controls_pre\n        else:\n            ss_controls = self._single_site_controls_post', '        if post:\n            ss_controls = self._single_site_controls_pre\n        else:\n            ss_controls = self._single_site_controls_post'))
brk("C15", "PtTempo step count ignores the start time", "U1", _sub(
    PTT, '            (end_time - self._start_time)/self._parameters.dt, decimals=9))', '            end_time/self._parameters.dt, decimals=9))'))
brk("C16", "tensor data stored in single precision", "X7", _sub(
    PT, "data_type = h5py.vlen_dtype(np.dtype('complex128'))", "data_type = h5py.vlen_dtype(np.dtype('complex64'))"))
brk("C16", "reader narrows the tensor", "X7", _sub(
    PT, '    tensor = tensor.reshape(tensor_shape)\n    if _is_hdf5_none(tensor):', '    tensor = tensor.reshape(tensor_shape).astype(np.complex64)\n    if _is_hdf5_none(tensor):'))
brk("C20", "functools.cache on a method reading public state", "A1", _multi(
    _sub(BC, 'from functools import lru_cache\n', 'from functools import lru_cache, cache\n'),
    _sub(BC, '    def spectral_density(self, omega: ArrayLike) -> ArrayLike:', '    @cache\n    def spectral_density(self, omega: ArrayLike) -> ArrayLike:')))

# ------------------------------------------------------------------ C12 L5, C10 I5/I6, C07 V6/V7, C20 A8/A6b/A7
brk("C12", "thermal eta kernel with the wrong sign of the reflected term", "L5", _sub(
    BC, "                        * (((np.exp(-1j*tau * w) \\\n                             + np.exp(-(w / self.temperature - 1j*tau * w))) \\",
    "                        * (((np.exp(-1j*tau * w) \\\n                             - np.exp(-(w / self.temperature - 1j*tau * w))) \\"))
brk("C12", "T=0 eta kernel without the linear counter term", "L5", _sub(
    BC, "                    (np.exp(-1j * w * tau) - 1) + 1j * w * tau)", "                    (np.exp(-1j * w * tau) - 1))"))
_OV_ETA = """                else:
                    inte = self._spectral_density(w) / w ** 2 \\
                        * (((np.exp(-1j*tau * w) \\
                             + np.exp(-(w / self.temperature - 1j*tau * w))) \\
                            - np.exp(- w / self.temperature) - 1) \\
                           + 1j*tau * w)
"""
_OV_COR = """                else:
                    inte = self._spectral_density(w) \\
                        * (np.exp(-1j * tau * w)
                           + np.exp(-(1 / self.temperature * w \\
                                      - 1j * tau * w)))
"""
brk("C12", "overflow branch of eta divides by w instead of w**2", "L5", _sub(
    BC, _OV_ETA, _OV_ETA.replace("/ w ** 2", "/ w")))
brk("C12", "eta kernel beyond the guard drops the reflected exponential (zero-temperature kernel)", "L8", _sub(
    BC, _OV_ETA, """                else:
                    inte = self._spectral_density(w) / w ** 2 \\
                        * (np.exp(-1j * w * tau) - 1 + 1j * w * tau)
"""))
brk("C11", "eta kernel beyond the guard drops the reflected exponential (zero-temperature kernel)", "K8", _sub(
    BC, _OV_ETA, """                else:
                    inte = self._spectral_density(w) / w ** 2 \\
                        * (np.exp(-1j * w * tau) - 1 + 1j * w * tau)
"""))
brk("C12", "correlation beyond the guard drops the reflected exponential", "L8", _sub(
    BC, _OV_COR, """                else:
                    inte = self._spectral_density(w) * np.exp(-1j * w * tau)
"""))
brk("C12", "eta kernel beyond the guard keeps the reflected term without its Boltzmann factor", "L8", _sub(
    BC, _OV_ETA, _OV_ETA.replace("np.exp(-(w / self.temperature - 1j*tau * w))", "np.exp(1j*tau * w)")))
ok("C12", "eta kernel beyond the guard identical to the guarded kernel", _sub(
    BC, _OV_ETA, """                else:
                    inte = self._spectral_density(w) / w ** 2 \\
                        * (((np.exp(-1j*tau * w) \\
                             + np.exp(-(w / self.temperature - 1j*tau * w))) \\
                            - np.exp(- w / self.temperature) - 1) \\
                        / (1 - np.exp(-w / self.temperature)) + 1j*tau * w)
"""))
ok("C11", "eta kernel beyond the guard identical to the guarded kernel", _sub(
    BC, _OV_ETA, """                else:
                    inte = self._spectral_density(w) / w ** 2 \\
                        * (((np.exp(-1j*tau * w) \\
                             + np.exp(-(w / self.temperature - 1j*tau * w))) \\
                            - np.exp(- w / self.temperature) - 1) \\
                        / (1 - np.exp(-w / self.temperature)) + 1j*tau * w)
"""))
_GUARD_RE = (r"(                if )np\.exp\(-w / self\.temperature\) > np\.finfo\(float\)\.eps(:\n)(.*?)"
             r"(                else:\n)(.*?)(                return inte\n)")
for _pid in ("C12", "C11"):
    ok(_pid, "overflow guards written the other way round (approximate branch first)", _sub(
        BC, _GUARD_RE, r"\1np.finfo(float).eps >= np.exp(-w / self.temperature)\2\5\4\3\6", count=2, regex=True))
    brk(_pid, "both integrand builders use the approximate branch for every frequency of a 'cold' bath",
        "L8" if _pid == "C12" else "K8", _multi(
        _sub(BC, r"(            )(def integrand\(w\):\n                # this is to stop overflow\n)",
             r"\1cold = np.exp(-self.cutoff / self.temperature) < np.finfo(float).eps\n\1\2", count=2, regex=True),
        _sub(BC, "                if np.exp(-w / self.temperature) > np.finfo(float).eps:\n",
             "                if not cold and np.exp(-w / self.temperature) > np.finfo(float).eps:\n", count=2)))
ok("C12", "eta kernel beyond the guard as the numerator of the guarded kernel", _sub(
    BC, _OV_ETA, """                else:
                    boltzmann = np.exp(-w / self.temperature)
                    inte = self._spectral_density(w) / w ** 2 \\
                        * (np.exp(-1j * w * tau) + boltzmann * np.exp(1j * w * tau) \\
                           - boltzmann - 1 + 1j * w * tau * (1 - boltzmann))
"""))
ok("C12", "correlation beyond the guard with the exponent written as a sum", _sub(
    BC, _OV_COR, """                else:
                    inte = self._spectral_density(w) \\
                        * (np.exp(-1j * w * tau)
                           + np.exp(1j * w * tau - w / self.temperature))
"""))
ok("C12", "eta kernel beyond the guard without the Boltzmann constant term", _sub(
    BC, _OV_ETA, _OV_ETA.replace("                            - np.exp(- w / self.temperature) - 1) \\\n", "                            - 1) \\\n")))
brk("C12", "thermal correlation integrand loses the reflected term", "L5", _sub(
    BC, "                        * (np.exp(-1j * tau * w)\n                           + np.exp(-(1 / self.temperature * w \\\n                                      - 1j * tau * w))) \\",
    "                        * (np.exp(-1j * tau * w)\n                           + np.exp(-(1 / self.temperature * w))) \\"))
brk("C12", "thermal eta kernel subtracts 1 twice", "L5", _sub(
    BC, "                            - np.exp(- w / self.temperature) - 1) \\", "                            - np.exp(- w / self.temperature) - 2) \\"))
brk("C10", "inner sites weighted 1 in the nn Liouvillians", "I5", _sub(
    SY, "            factor_r = 1 if i == len(self)-2 else 0.5", "            factor_r = 1 if i >= len(self)-3 else 0.5"))
brk("C10", "left boundary weighted one half", "I5", _sub(
    SY, "            factor_l = 1 if i == 0 else 0.5", "            factor_l = 0.5"))
brk("C10", "order-2 Trotter layers with the full time step", "I6", _sub(
    MM, "            dt=time_step/2.0,\n            epsrel=epsrel)\n        propagator = TebdPropagator(gate_layers=[layers[0],\n                                                 layers[1],\n                                                 layers[1],",
    "            dt=time_step,\n            epsrel=epsrel)\n        propagator = TebdPropagator(gate_layers=[layers[0],\n                                                 layers[1],\n                                                 layers[1],"))
brk("C10", "order-2 sequence not symmetric", "I6", _sub(
    MM, "                                                 layers[1],\n                                                 layers[1],\n                                                 layers[0]])",
    "                                                 layers[1],\n                                                 layers[0],\n                                                 layers[1]])"))
brk("C10", "PT-TEBD propagator built with the full step", "I6", _sub(
    TEBD, "                time_step=self._parameters.dt/2.0,", "                time_step=self._parameters.dt,"))
brk("C07", "equal times treated as unordered", "V6", _sub(
    SD, "                mask = last_times >= ft_max\n", "                mask = last_times > ft_max\n"))
brk("C07", "right ordering builds a left superoperator", "V7", _sub(
    SD, "            super_operators.append(right_super(operators[i]))", "            super_operators.append(left_super(operators[i]))"))
brk("C07", "expectation taken with the first operator", "V7", _sub(
    SD, "    _, corr = dynamics.expectations(operators[-1])", "    _, corr = dynamics.expectations(operators[0])"))
brk("C20", "Bath keeps the caller's correlations object", "A8", _sub(
    BA, "        self._correlations = copy(correlations)", "        self._correlations = correlations"))
brk("C20", "Bath hands out its internal commutator array", "A8", _sub(
    BA, "        return self._coupling_comm.copy()", "        return self._coupling_comm"))
brk("C20", "Hamiltonian frozen without a copy", "A8", _sub(
    SY, "        tmp_hamiltonian = np.array(hamiltonian, dtype=NpDtype)\n        tmp_hamiltonian.setflags(write=False)",
    "        tmp_hamiltonian = np.asarray(hamiltonian, dtype=NpDtype)\n        tmp_hamiltonian.setflags(write=False)"))
brk("C20", "numpy error state changed inside a computation", "A6b", _sub(
    BC, "        # real and imaginary part of the integrand\n        if matsubara:\n            tau = -1j * tau\n        # convention is tau.imag < 0\n        if self.temperature == 0.0:\n            check_true(\n                matsubara is False,\n                'Matsubara correlations only defined for temperature > 0')\n            def integrand(w):\n                return self._spectral_density(w) * np.exp(-1j * w * tau)",
    "        # real and imaginary part of the integrand\n        np.seterr(over='ignore')\n        if matsubara:\n            tau = -1j * tau\n        # convention is tau.imag < 0\n        if self.temperature == 0.0:\n            check_true(\n                matsubara is False,\n                'Matsubara correlations only defined for temperature > 0')\n            def integrand(w):\n                return self._spectral_density(w) * np.exp(-1j * w * tau)"))

brk("C09", "propagators use the field of the previous step", "F1", _multi(
    _sub(SD, '''            if step == 0:
                field = initial_field
            else:
                field = compute_field(
                    t - dt, dt, previous_state_list, field, state_list)
            previous_state_list = state_list''', '''            old_field = initial_field if step == 0 else field
            if step == 0:
                field = initial_field
            else:
                field = compute_field(
                    t - dt, dt, previous_state_list, field, state_list)
            previous_state_list = state_list'''),
    _sub(SD, '''                                    mean_field_system.field_eom(t, state_list,
                                                                field))''', '''                                    mean_field_system.field_eom(t, state_list,
                                                                old_field))''')))
brk("C09", "mean-field back end differentiates the field with the next field", "F1", _multi(
    _sub(TB, '''        current_field_derivative = self._compute_field_derivative(
            current_step, current_state_list, current_field)''', '''        current_field_derivative = self._compute_field_derivative(
            next_step, current_state_list, current_field)''')))

brk("C05", "eigenvalues sorted independently of the eigenvectors", "E3", _sub(
    BA, "            self._coupling_operator = np.diag(w)\n", "            w = np.sort(w)[::-1]\n            self._coupling_operator = np.diag(w)\n"))
brk("C05", "eigenvector phases 'normalised' after the decomposition", "E3", _sub(
    BA, "            self._unitary = v\n", "            v = v / v[0]\n            self._unitary = v\n"))
brk("C05", "reconstruction assertion removed", "E3", _sub(
    BA, "            assert np.allclose(tmp_coupling_operator, \\\n                self._unitary @ self._coupling_operator \\\n                @ self._unitary.conjugate().T)\n", ""))
brk("C11", "Gibbs coefficients computed in real time", "K4", _sub(
    TE, "                self._dt, k * self._dt, shape=shape, matsubara=True)", "                self._dt, k * self._dt, shape=shape, matsubara=False)"))
brk("C11", "Gibbs free propagator in real time", "K4", _sub(
    TE, "            - 1j * self._dt, 0, 0, 0)", "            self._dt, 0, 0, 0)"))
brk("C11", "Gibbs slice from the original correlations' temperature argument", "K4", _sub(
    TE, "        self._dt = self._parameters.time_step_length(self._temperature)", "        self._dt = self._parameters.time_step_length(1.0)"))

_EXEC_NAME_BOUND = _sub(
    TEBDB, '''            if self._parallel == "multiprocess":
                with concurrent.futures.ProcessPoolExecutor() as executor:
                    output_datas = executor.map(apply_nn_gate, input_datas)
            elif self._parallel == "multithread":
                with concurrent.futures.ThreadPoolExecutor() as executor:
                    output_datas = executor.map(apply_nn_gate, input_datas)
            else:
                raise NotImplementedError("Parallelisation method " \\
                    + f"'{self._parallel}' is not implementedds!")
''', '''            if self._parallel == "multiprocess":
                executor = concurrent.futures.ProcessPoolExecutor()
            elif self._parallel == "multithread":
                executor = concurrent.futures.ThreadPoolExecutor()
            else:
                raise NotImplementedError("Parallelisation method " \\
                    + f"'{self._parallel}' is not implementedds!")
            with executor:
                output_datas = list(executor.map(apply_nn_gate, input_datas))
''')
ok("C10", "executor bound to a name, entered with `with executor:`, results via map", _EXEC_NAME_BOUND)
ok("C19", "executor bound to a name, entered with `with executor:`", _EXEC_NAME_BOUND)
_GOOD_MEMO = _multi(
    _sub(CT, "        self._control_times = {'pre':np.array([]), 'post':np.array([])}\n        super().__init__(name, description)",
         "        self._control_times = {'pre':np.array([]), 'post':np.array([])}\n        self._control_steps = {}\n        super().__init__(name, description)"),
    _sub(CT, "                self._control_times[pre_post] = times\n", "                self._control_times[pre_post] = times\n                self._control_steps.clear()\n"),
    _sub(CT, "    def get_controls(\n            self,\n            step: int,",
         "    def _get_control_steps(self, pre_post, dt, start_time):\n        key = (pre_post, dt, start_time)\n        cached = self._control_steps.get(key)\n        if cached is None:\n            times = self._control_times[pre_post]\n            cached = np.round((times - start_time) / dt)\n            self._control_steps[key] = cached\n        return cached\n\n    def get_controls(\n            self,\n            step: int,"),
    _sub(CT, "        a = np.round((self._control_times['pre'] - start_time) / dt)", "        a = self._get_control_steps('pre', dt, start_time)"),
    _sub(CT, "        a = np.round((self._control_times['post'] - start_time) / dt)", "        a = self._get_control_steps('post', dt, start_time)"))
ok("C18", "float-time step cache keyed by (group, dt, start_time)", _GOOD_MEMO)
ok("C20", "float-time step cache keyed by (group, dt, start_time)", _GOOD_MEMO)
ok("C15", "float-time step cache keyed by (group, dt, start_time)", _GOOD_MEMO)

OP = "oqupy/operators.py"
brk("C04", "dissipator with the full anticommutator", "D1", _sub(
    SY, "        liouvillian += gamma * (opr.left_right_super(op, op_dagger) \\\n                                - 0.5 * opr.acommutator(np.dot(op_dagger, op)))",
    "        liouvillian += gamma * (opr.left_right_super(op, op_dagger) \\\n                                - opr.acommutator(np.dot(op_dagger, op)))"))
brk("C04", "dissipator anticommutator of L L^dagger", "D1", _sub(
    SY, "        liouvillian += gamma * (opr.left_right_super(op, op_dagger) \\\n                                - 0.5 * opr.acommutator(np.dot(op_dagger, op)))",
    "        liouvillian += gamma * (opr.left_right_super(op, op_dagger) \\\n                                - 0.5 * opr.acommutator(np.dot(op, op_dagger)))"))
brk("C04", "chain site dissipator jump term with (L^dagger, L)", "D1", _sub(
    SY, "            gamma * (opr.left_right_super(op, op_dagger) \\\n                      - 0.5 * opr.acommutator(np.dot(op_dagger, op)))",
    "            gamma * (opr.left_right_super(op_dagger, op) \\\n                      - 0.5 * opr.acommutator(np.dot(op_dagger, op)))"))
brk("C04", "two-site dissipator forgets the conjugate on the right factor", "D1", _sub(
    SY, "            operator_2_r=op_r.T.conjugate())", "            operator_2_r=op_r.T)"))
brk("C04", "right_super without the transpose", "D2", _sub(
    OP, "    return np.kron(np.identity(dim), operator.T)\n\ndef left_right_super", "    return np.kron(np.identity(dim), operator)\n\ndef left_right_super"))
brk("C04", "commutator with a plus sign", "D2", _sub(
    OP, "    return np.kron(operator, np.identity(dim)) \\\n            - np.kron(np.identity(dim), operator.T)", "    return np.kron(operator, np.identity(dim)) \\\n            + np.kron(np.identity(dim), operator.T)"))
brk("C04", "Hamiltonian part with the wrong sign", "D2", _sub(
    SY, "    liouvillian = -1j * opr.commutator(hamiltonian)", "    liouvillian = 1j * opr.commutator(hamiltonian)"))
brk("C04", "Gibbs state returned unnormalised", "D3", _sub(TE, "        state = state / state.trace()\n", ""))
brk("C04", "influence exponent factor is the anticommutator", "D4", _sub(
    TE, "                                + 1j*eta_dk.imag*op_p, op_m))", "                                + 1j*eta_dk.imag*op_p, op_p))"))
brk("C04", "influence pairs Im(eta) with the commutator", "D4", _sub(
    TE, "        infl = np.diag(np.exp(-op_m*(eta_dk.real*op_m \\\n                                        + 1j*eta_dk.imag*op_p)))", "        infl = np.diag(np.exp(-op_m*(eta_dk.real*op_m \\\n                                        + 1j*eta_dk.imag*op_m)))"))
brk("C04", "influence exponent loses the imaginary unit", "D4", _sub(
    TE, "        infl = np.exp(-np.outer(eta_dk.real*op_m \\\n                                + 1j*eta_dk.imag*op_p, op_m))", "        infl = np.exp(-np.outer(eta_dk.real*op_m \\\n                                + eta_dk.imag*op_p, op_m))"))
ok("C04", "dissipator with op_dagger inlined", _sub(
    SY, "        op_dagger = op.conjugate().T\n        liouvillian += gamma * (opr.left_right_super(op, op_dagger) \\\n                                - 0.5 * opr.acommutator(np.dot(op_dagger, op)))",
    "        liouvillian += gamma * (opr.left_right_super(op, op.conj().T) \\\n                                - 0.5 * opr.acommutator(op.conj().T @ op))"))

brk("C03", "_apply_pt_mpos takes the future bond from axis 0", "M1", _multi(
    _sub(SD, "        new_bond_edge = pt_mpo_node[1]\n        new_sys_edge = pt_mpo_node[3]\n        current_edges[i] ^ pt_mpo_node[0]",
         "        new_bond_edge = pt_mpo_node[0]\n        new_sys_edge = pt_mpo_node[3]\n        current_edges[i] ^ pt_mpo_node[1]")))
brk("C03", "PT-TEBD feeds the system leg into the output axis", "M1", _multi(
    _sub(TEBDB, "                pt[2] ^ self._phys_es[site]\n                self._pt_es[site] = pt[1]\n                self._phys_es[site] = pt[3]",
         "                pt[3] ^ self._phys_es[site]\n                self._pt_es[site] = pt[1]\n                self._phys_es[site] = pt[2]")))
brk("C03", "in-memory compute_caps swaps trace_in and trace_out", "M1", _sub(
    PT, "                ten[2] ^ trace_in[0]\n                ten[3] ^ trace_out[0]\n                new_cap = ten @ last_cap @ trace_in @ trace_out\n            caps.insert",
    "                ten[3] ^ trace_in[0]\n                ten[2] ^ trace_out[0]\n                new_cap = ten @ last_cap @ trace_in @ trace_out\n            caps.insert"))
ok("C03", "file compute_caps closes the two system legs with the plain trace in the other order", _sub(
    PT, "            ten[2] ^ trace_in[0]\n            ten[3] ^ trace_out[0]\n            new_cap = ten @ last_cap @ trace_in @ trace_out\n            self.set_cap_tensor",
    "            ten[3] ^ trace_in[0]\n            ten[2] ^ trace_out[0]\n            new_cap = ten @ last_cap @ trace_in @ trace_out\n            self.set_cap_tensor"))
brk("C03", "rank-3 expansion onto the bond legs", "M1", _sub(
    PT, "            tensor = util.create_delta(tensor, [0, 1, 2, 2])\n        if transformed is False:", "            tensor = util.create_delta(tensor, [0, 1, 1, 2])\n        if transformed is False:"))
brk("C03", "system superoperator applied untransposed", "M2", _sub(
    SD, "    sup_op_node = tn.Node(sup_op.T)", "    sup_op_node = tn.Node(sup_op)"))
brk("C03", "dt agreement of the process tensors no longer checked", "M3", _sub(
    SD, "                check_true(\n                    pt.dt == dt,\n                    \"All process tensors must have the same \"\\\n                            \"timestep length.\")", "                pass"))
brk("C03", "longest process tensor bounds num_steps", "M3", _sub(
    SD, "    max_step = np.min(max_steps+[np.inf])", "    max_step = np.max(max_steps+[0])"))
brk("C03", "caps taken from the first process tensor only", "M4", _sub(
    SD, "            cap = process_tensors[i].get_cap_tensor(step)", "            cap = process_tensors[0].get_cap_tensor(step)"))
brk("C03", "every MPO connected to the first bond leg", "M4", _sub(
    SD, "        current_edges[i] ^ pt_mpo_node[0]\n        current_edges[-1] ^ pt_mpo_node[2]\n        current_node = current_node @ pt_mpo_node\n        current_edges[i] = new_bond_edge",
    "        current_edges[0] ^ pt_mpo_node[0]\n        current_edges[-1] ^ pt_mpo_node[2]\n        current_node = current_node @ pt_mpo_node\n        current_edges[0] = new_bond_edge"))
ok("C03", "_apply_pt_mpos with renamed temporaries", _multi(
    _sub(SD, "        new_bond_edge = pt_mpo_node[1]\n        new_sys_edge = pt_mpo_node[3]", "        next_bond_edge = pt_mpo_node[1]\n        next_sys_edge = pt_mpo_node[3]"),
    _sub(SD, "        current_edges[i] = new_bond_edge\n        current_edges[-1] = new_sys_edge\n    return current_node, current_edges\n\ndef _apply_derivative", "        current_edges[i] = next_bond_edge\n        current_edges[-1] = next_sys_edge\n    return current_node, current_edges\n\ndef _apply_derivative")))


# ------------------------------------------------------------------ generic silence variants
from selftest import generic as _generic  # noqa: E402


def _reformat_all(scratch: str):
    """Every module re-printed by ast.unparse: comments, layout, line numbers,
    parenthesisation and string quoting change; behaviour does not."""
    import ast as _ast
    changed = []
    for dirpath, _, files in os.walk(os.path.join(scratch, "oqupy")):
        for f in files:
            if f.endswith(".py"):
                full = os.path.join(dirpath, f)
                with open(full) as fh:
                    src = fh.read()
                with open(full, "w") as fh:
                    fh.write(_ast.unparse(_ast.parse(src)) + "\n")
                changed.append(os.path.relpath(full, scratch))
    return changed


def _shift_lines(scratch: str):
    """Forty blank lines inserted after the module docstring of every module."""
    changed = []
    for dirpath, _, files in os.walk(os.path.join(scratch, "oqupy")):
        for f in files:
            if f.endswith(".py"):
                full = os.path.join(dirpath, f)
                with open(full) as fh:
                    lines = fh.read().split("\n")
                # after the licence comment block
                i = 0
                while i < len(lines) and lines[i].startswith("#"):
                    i += 1
                lines[i:i] = [""] * 40
                with open(full, "w") as fh:
                    fh.write("\n".join(lines))
                changed.append(os.path.relpath(full, scratch))
    return changed


# ------------------------------------------------------------------ C13 G5 / G6, C15 U4
DY = "oqupy/dynamics.py"
_TB_STEP = '        next_step = self._step + 1\n        prop_1, prop_2 = self._propagators(self._step)\n        self._state = self.compute_system_step(next_step, prop_1, prop_2)\n        self._step = next_step\n'
brk("C13", "TempoBackend.compute_step advances the counter before the propagators are computed", "G5", _sub(
    TB, _TB_STEP,
    '        self._step += 1\n        prop_1, prop_2 = self._propagators(self._step - 1)\n        self._state = self.compute_system_step(self._step, prop_1, prop_2)\n'))
brk("C13", "MeanFieldTempoBackend.compute_step advances the counter before the field equation is called", "G5", _multi(
    _sub(TB, '        current_step = self._step\n        next_step = current_step + 1\n        current_state_list = deepcopy(self._state_list)\n',
         '        current_step = self._step\n        next_step = current_step + 1\n        self._step = next_step\n        current_state_list = deepcopy(self._state_list)\n'),
    _sub(TB, '        self._field = next_field\n        self._step = next_step\n', '        self._field = next_field\n')))
ok("C13", "TempoBackend.compute_step: counter written last through temporaries", _sub(
    TB, _TB_STEP,
    '        k = self._step\n        props = self._propagators(k)\n        new_state = self.compute_system_step(k + 1, props[0], props[1])\n        self._state = new_state\n        self._step = k + 1\n'))
_DY_ADD = '        index = _find_list_index(self._times, tmp_time)\n        self._times.insert(index, tmp_time)\n        self._states.insert(index, tmp_state)\n'
_TOL_DEDUPE = '        index = _find_list_index(self._times, tmp_time)\n        if index > 0 and np.isclose(self._times[index-1], tmp_time):\n            self._states[index-1] = tmp_state\n            return\n        self._times.insert(index, tmp_time)\n        self._states.insert(index, tmp_state)\n'
_REL_DEDUPE = '        index = _find_list_index(self._times, tmp_time)\n        if index > 0 and abs(self._times[index-1] - tmp_time) <= 1e-9 * abs(tmp_time):\n            self._states[index-1] = tmp_state\n            return\n        self._times.insert(index, tmp_time)\n        self._states.insert(index, tmp_state)\n'
_EXACT_DEDUPE = '        index = _find_list_index(self._times, tmp_time)\n        if index > 0 and self._times[index-1] == tmp_time:\n            self._states[index-1] = tmp_state\n            return\n        self._times.insert(index, tmp_time)\n        self._states.insert(index, tmp_state)\n'
_ABS_DEDUPE = '        index = _find_list_index(self._times, tmp_time)\n        if index > 0 and np.isclose(self._times[index-1], tmp_time, rtol=0, atol=1e-13):\n            self._states[index-1] = tmp_state\n            return\n        self._times.insert(index, tmp_time)\n        self._states.insert(index, tmp_state)\n'
for _pid, _rule in (("C13", "G6"), ("C15", "U4")):
    brk(_pid, "Dynamics.add overwrites the entry whose time is numpy-close", _rule, _sub(DY, _DY_ADD, _TOL_DEDUPE))
    ok(_pid, "Dynamics.add overwrites the entry with exactly the same time", _sub(DY, _DY_ADD, _EXACT_DEDUPE))
    ok(_pid, "Dynamics.add overwrites the entry within an absolute tolerance", _sub(DY, _DY_ADD, _ABS_DEDUPE))
    ok(_pid, "_parse_state checks hermiticity with a tolerance", _sub(
        DY, '        tmp_state = np.array(state, dtype=NpDtype)\n',
        '        tmp_state = np.array(state, dtype=NpDtype)\n        hermitian = np.allclose(tmp_state, tmp_state.conj().T)\n'))
brk("C15", "Dynamics.add overwrites the entry within a hand-written relative tolerance", "U4", _sub(DY, _DY_ADD, _REL_DEDUPE))
brk("C15", "Dynamics.__str__-style helper scales the recorded times", "U4", _sub(
    DY, '        return np.array(self._times, dtype=NpDtypeReal)\n',
    '        return np.array(self._times, dtype=NpDtypeReal) * (1 + 1e-12)\n'))
ok("C15", "duration of the record as a magnitude", _sub(
    DY, _DY_ADD, _DY_ADD + '        span = abs(self._times[-1] - self._times[0])\n'))
brk("C13", "MeanFieldDynamics.add records the time but skips an empty field", "G6", _sub(
    DY, '        self._fields.insert(index, tmp_field)\n',
    '        if tmp_field is not None:\n            self._fields.insert(index, tmp_field)\n'))
brk("C13", "Dynamics.add leaves early after recording the time when the state repeats", "G6", _sub(
    DY, '        self._times.insert(index, tmp_time)\n        self._states.insert(index, tmp_state)\n',
    '        self._times.insert(index, tmp_time)\n        if self._states and tmp_state is self._states[-1]:\n            return\n        self._states.insert(index, tmp_state)\n'))

# ------------------------------------------------------------------ C20 A1: lru_cache over internally mutated state
_LRU_IMPORT_CT = _sub(CT, 'from copy import deepcopy\n', 'from copy import deepcopy\nfrom functools import lru_cache\n')
brk("C20", "lru_cache on ChainControl.get_single_site_controls (controls are added later)", "A1", _multi(
    _LRU_IMPORT_CT,
    _sub(CT, '    def get_single_site_controls(\n', '    @lru_cache(maxsize=None)\n    def get_single_site_controls(\n')))
brk("C20", "lru_cache on Dynamics.expectations (states are added later)", "A1", _multi(
    _sub(DY, 'from bisect import bisect\n', 'from bisect import bisect\nfrom functools import lru_cache\n'),
    _sub(DY, '    def expectations(\n', '    @lru_cache(maxsize=16)\n    def expectations(\n')))
ok("C20", "lru_cache on Control.get_controls, cleared by every method that adds controls", _multi(
    _LRU_IMPORT_CT,
    _sub(CT, '    def get_controls(\n', '    @lru_cache(maxsize=2 ** 10, typed=False)\n    def get_controls(\n'),
    _sub(CT, '        control_operation = np.array(control_operation, dtype=NpDtype)\n\n        if isinstance(time, int):\n',
         '        control_operation = np.array(control_operation, dtype=NpDtype)\n        self.get_controls.cache_clear()\n\n        if isinstance(time, int):\n')))

# ------------------------------------------------------------------ C18 O2: fused controls
_CD_CTRL = '            pre_measurement_control, post_measurement_control = controls(step)\n\n            if pre_measurement_control is not None:\n                current_node, current_edges = _apply_system_superoperator(\n                    current_node, current_edges, pre_measurement_control)\n\n            if step == num_steps:\n                break\n'
def _fuse(cond, product):
    return _sub(SD, _CD_CTRL, _CD_CTRL.replace(
        'controls(step)\n\n', 'controls(step)\n\n            if ' + cond + ' \\\n                    and pre_measurement_control is not None \\\n                    and post_measurement_control is not None:\n                pre_measurement_control = \\\n                    ' + product + '\n                post_measurement_control = None\n\n'))
brk("C18", "pre and post control fused when no state is recorded in between, also at the last step", "O2",
    _fuse('not record_all', 'post_measurement_control @ pre_measurement_control'))
brk("C18", "pre and post control fused for inner steps, factors in the wrong order", "O2",
    _fuse('not record_all and step < num_steps', 'pre_measurement_control @ post_measurement_control'))
brk("C18", "pre and post control fused for inner steps, also when every state is recorded", "O2",
    _fuse('step < num_steps', 'np.dot(post_measurement_control, pre_measurement_control)'))
ok("C18", "pre and post control fused for inner steps when no state is recorded in between",
   _fuse('not record_all and step < num_steps', 'post_measurement_control @ pre_measurement_control'))
ok("C18", "pre and post control fused (np.dot, != test) for inner steps when no state is recorded in between",
   _fuse('(not record_all) and step != num_steps', 'np.dot(post_measurement_control, pre_measurement_control)'))

# ------------------------------------------------------------------ ownership (C03 M9, C18 O6, C20 A9)
_CD_POST = '            # -- apply post measurement control --\n            if post_measurement_control is not None:\n                current_node, current_edges = _apply_system_superoperator(\n                    current_node, current_edges, post_measurement_control)\n\n            # -- propagate one time step --\n            first_half_prop, second_half_prop = propagators(step)\n            pt_mpos = _get_pt_mpos(process_tensors, step)\n'
def _absorb(stmts):
    return _sub(SD, _CD_POST, '            # -- propagate one time step --\n            first_half_prop, second_half_prop = propagators(step)\n            pt_mpos = _get_pt_mpos(process_tensors, step)\n\n            if post_measurement_control is not None:\n' + stmts)
for _pid, _rule in (("C03", "M9"), ("C18", "O6"), ("C20", "A9")):
    brk(_pid, "post control multiplied into the first half-step propagator in place", _rule,
        _absorb('                first_half_prop @= post_measurement_control\n'))
    brk(_pid, "post control written into the first half-step propagator with out=", _rule,
        _absorb('                np.matmul(first_half_prop, post_measurement_control, out=first_half_prop)\n'))
    ok(_pid, "post control absorbed into a new first half-step propagator",
       _absorb('                first_half_prop = first_half_prop @ post_measurement_control\n'))
    ok(_pid, "post control multiplied in place into a copy of the first half-step propagator",
       _absorb('                first_half_prop = first_half_prop.copy()\n                first_half_prop @= post_measurement_control\n'))
brk("C20", "occupation() zeroes the NaNs of the stored system correlations in place", "A9", _sub(
    "oqupy/bath_dynamics.py", '        _sys_correlations = np.nan_to_num(_sys_correlations)\n        last_time = len(self._process_tensor)',
    '        _sys_correlations[np.isnan(_sys_correlations)] = 0.0\n        last_time = len(self._process_tensor)'))

# ------------------------------------------------------------------ memo kept on self by the propagator closure (C02 S7, C07 V9, C20 A7)
SYS = "oqupy/system.py"
_TD_SAMPLE = '                t = start_time + step * dt\n                first_step = expm(self.liouvillian(t+dt/4.0)*dt/2.0)\n                second_step = expm(self.liouvillian(t+dt*3.0/4.0)*dt/2.0)\n                return first_step, second_step\n'
_TD_INIT = '        super().__init__(tmp_dimension, name, description)\n\n    def liouvillian(self, t: Optional[float] = None) -> ndarray:\n        r"""\n        Returns the Liouvillian super-operator :math:`\\mathcal{L}(t)` with'
def _td_memo(key, container_init, container):
    return _multi(
        _sub(SYS, _TD_SAMPLE,
             '                key = ' + key + '\n                if key in ' + container + ':\n                    return ' + container + '[key]\n' + _TD_SAMPLE.replace(
                 '                return first_step, second_step\n',
                 '                ' + container + '[key] = (first_step, second_step)\n                return first_step, second_step\n')),
        container_init)
_SELF_MEMO_INIT = _sub(SYS, '    def get_propagators(self, dt, start_time, subdiv_limit, epsrel):\n        """Prepare propagator functions for the system according to\n        subdiv_limit. """\n        if subdiv_limit is None:\n            # Sample',
                       '    def get_propagators(self, dt, start_time, subdiv_limit, epsrel):\n        """Prepare propagator functions for the system according to\n        subdiv_limit. """\n        if not hasattr(self, "_sampled"):\n            self._sampled = {}\n        if subdiv_limit is None:\n            # Sample')
_LOCAL_MEMO_INIT = _sub(SYS, '    def get_propagators(self, dt, start_time, subdiv_limit, epsrel):\n        """Prepare propagator functions for the system according to\n        subdiv_limit. """\n        if subdiv_limit is None:\n            # Sample',
                        '    def get_propagators(self, dt, start_time, subdiv_limit, epsrel):\n        """Prepare propagator functions for the system according to\n        subdiv_limit. """\n        sampled = {}\n        if subdiv_limit is None:\n            # Sample')
for _pid, _rule in (("C02", "S7"), ("C07", "V9"), ("C20", "A7")):
    brk(_pid, "time dependent propagator closure memoises on self by step only", _rule,
        _td_memo('step', _SELF_MEMO_INIT, 'self._sampled'))
    brk(_pid, "time dependent propagator closure memoises on self by (step, dt)", _rule,
        _td_memo('(step, dt)', _SELF_MEMO_INIT, 'self._sampled'))
    ok(_pid, "time dependent propagator closure memoises on self by (step, dt, start_time)",
       _td_memo('(step, dt, start_time)', _SELF_MEMO_INIT, 'self._sampled'))
    ok(_pid, "time dependent propagator closure memoises by step in a dict of its own get_propagators call",
       _td_memo('step', _LOCAL_MEMO_INIT, 'sampled'))

# ------------------------------------------------------------------ corners of the cells (C12 L1, C01 N5)
_ETA_BODY = """        if shape == 'upper-triangle':
            integral = self.eta_function(time_1 + delta, **kwargs) \\
                       - self.eta_function(time_1, **kwargs)
        elif shape == 'square':
            integral = self.eta_function(time_1 + delta, **kwargs) \\
                       - 2.0 * self.eta_function(time_1, **kwargs) \\
                       + self.eta_function(time_1 - delta, **kwargs)
        elif shape == 'rectangle':
            integral = self.eta_function(time_2, **kwargs) \\
                       - self.eta_function(time_1, **kwargs) \\
                       - self.eta_function(time_2 - delta, **kwargs) \\
                       + self.eta_function(time_1 - delta, **kwargs)
"""
def _eta_helper(helper):
    import re as _re
    body = _re.sub(r"self\.eta_function\(([^,]+), \*\*kwargs\)", r"eta(\1)", _ETA_BODY)
    return _sub(BC, _ETA_BODY, helper + "\n" + body)
for _pid, _rule in (("C12", "L1"), ("C01", "N5")):
    brk(_pid, "eta evaluated at times rounded to 12 decimals through a local helper", _rule,
        _eta_helper("        eta = lambda tau: self.eta_function(round(float(tau), 12), **kwargs)\n"))
    brk(_pid, "eta evaluated at times clipped at zero", _rule,
        _eta_helper("        def eta(tau):\n            return self.eta_function(max(tau, 0.0), **kwargs)\n"))
    ok(_pid, "eta evaluated through a local lambda helper", 
       _eta_helper("        eta = lambda tau: self.eta_function(tau, **kwargs)\n"))
    brk(_pid, "eta helper returns 0 for every non-positive argument", _rule,
        _eta_helper("        def eta(tau):\n            if tau <= 0.0:\n                return 0.0\n            return self.eta_function(tau, **kwargs)\n"))
    ok(_pid, "eta helper with the exact shortcut eta(0) = 0",
       _eta_helper("        def eta(tau):\n            if tau == 0.0:\n                return 0.0\n            return self.eta_function(tau, **kwargs)\n"))
    ok(_pid, "eta evaluated through a nested helper function with a float cast",
       _eta_helper("        def eta(tau):\n            return self.eta_function(float(tau), **kwargs)\n"))

# ------------------------------------------------------------------ containers keep values (C04 D7, C10 I8)
MM = "oqupy/mps_mpo.py"
_LAM_OK = '                assert len(tmp_lambda) == bond_dim\n            tmp_lambdas.append(tmp_lambda)\n'
for _pid, _rule in (("C04", "D7"), ("C10", "I8")):
    brk(_pid, "AugmentedMPS normalises the lambdas it is given to unit 2-norm", _rule, _sub(
        MM, _LAM_OK, '                assert len(tmp_lambda) == bond_dim\n                tmp_lambda = tmp_lambda / np.linalg.norm(tmp_lambda)\n            tmp_lambdas.append(tmp_lambda)\n'))
    brk(_pid, "AugmentedMPS scales every gamma to unit largest element", _rule, _sub(
        MM, '            tmp_gammas.append(tmp_gamma)\n', '            tmp_gamma /= np.abs(tmp_gamma).max()\n            tmp_gammas.append(tmp_gamma)\n'))
    ok(_pid, "AugmentedMPS stores contiguous copies of the lambdas", _sub(
        MM, _LAM_OK, '                assert len(tmp_lambda) == bond_dim\n                tmp_lambda = np.ascontiguousarray(tmp_lambda).copy()\n            tmp_lambdas.append(tmp_lambda)\n'))
    ok(_pid, "AugmentedMPS computes the norm of the lambdas for a log message only", _sub(
        MM, _LAM_OK, '                assert len(tmp_lambda) == bond_dim\n                weight = np.linalg.norm(tmp_lambda)\n            tmp_lambdas.append(tmp_lambda)\n'))

# ------------------------------------------------------------------ rotation pair set for every back end (C05 E2, C02 S6)
_LRS_PAIR = '        self._super_u = op.left_right_super(\n            self._unitary_transform,\n            self._unitary_transform.conjugate().T)\n        self._super_u_dagg = op.left_right_super(\n            self._unitary_transform.conjugate().T,\n            self._unitary_transform)\n\n'
_LRS_ROT = '                tmp = dot(moveaxis(infl_four_legs, 1, -1),\n                        self._super_u_dagg)\n                tmp = moveaxis(tmp, -1, 1)\n                tmp = np.dot(tmp, self._super_u.T)\n                infl_four_legs = tmp\n'
_LRS_ROT_GUARDED = '                if self._super_u is not None:\n                    tmp = dot(moveaxis(infl_four_legs, 1, -1),\n                              self._super_u_dagg)\n                    tmp = moveaxis(tmp, -1, 1)\n                    infl_four_legs = np.dot(tmp, self._super_u.T)\n'
_BASE_INIT_NONE = '        self._super_u = None\n        self._super_u_dagg = None\n'
for _pid, _rule in (("C05", "E2"), ("C02", "S6")):
    brk(_pid, "rotation pair built only by the TempoBackend constructor, rotation skipped when it is missing", _rule, _multi(
        _sub(TB, _LRS_PAIR, ''),
        _sub(TB, _LRS_ROT, _LRS_ROT_GUARDED),
        _sub(TB, '        self._propagators = propagators\n\n    def initialize(self) -> Tuple[int, ndarray]:',
             '        self._propagators = propagators\n        u_dagg = unitary_transform.conjugate().T\n        self._super_u = op.left_right_super(unitary_transform, u_dagg)\n        self._super_u_dagg = op.left_right_super(u_dagg, unitary_transform)\n\n    def initialize(self) -> Tuple[int, ndarray]:')))
    ok(_pid, "rotation pair built by the BaseTempoBackend constructor", _multi(
        _sub(TB, _LRS_PAIR, ''),
        _sub(TB, _BASE_INIT_NONE, '        self._super_u = op.left_right_super(\n            unitary_transform,\n            unitary_transform.conjugate().T)\n        self._super_u_dagg = op.left_right_super(\n            unitary_transform.conjugate().T,\n            unitary_transform)\n')))
    ok(_pid, "rotation pair built by the BaseTempoBackend constructor unless the transform is the identity", _multi(
        _sub(TB, _LRS_PAIR, ''),
        _sub(TB, _LRS_ROT, _LRS_ROT_GUARDED),
        _sub(TB, _BASE_INIT_NONE, _BASE_INIT_NONE + '        if not np.allclose(unitary_transform, np.identity(len(unitary_transform))):\n            self._super_u = op.left_right_super(\n                unitary_transform,\n                unitary_transform.conjugate().T)\n            self._super_u_dagg = op.left_right_super(\n                unitary_transform.conjugate().T,\n                unitary_transform)\n')))

for _pid, _rule in (("C03", "M9"), ("C18", "O6"), ("C20", "A9")):
    brk(_pid, "first MPO tensor of the step rescaled in place (element of the list the helper returns)", _rule, _sub(
        SD, '            pt_mpos = _get_pt_mpos(process_tensors, step)\n\n            current_node, current_edges = _apply_system_superoperator(\n                current_node, current_edges, first_half_prop)\n',
        '            pt_mpos = _get_pt_mpos(process_tensors, step)\n            pt_mpos[0] /= np.max(np.abs(pt_mpos[0]))\n\n            current_node, current_edges = _apply_system_superoperator(\n                current_node, current_edges, first_half_prop)\n'))
    ok(_pid, "first MPO tensor of the step replaced by a rescaled copy in the helper's list", _sub(
        SD, '            pt_mpos = _get_pt_mpos(process_tensors, step)\n\n            current_node, current_edges = _apply_system_superoperator(\n                current_node, current_edges, first_half_prop)\n',
        '            pt_mpos = _get_pt_mpos(process_tensors, step)\n            pt_mpos[0] = pt_mpos[0] / 1.0\n\n            current_node, current_edges = _apply_system_superoperator(\n                current_node, current_edges, first_half_prop)\n'))

# ------------------------------------------------------------------ C16 X9: export / import move, they do not compute
PTM = "oqupy/process_tensor.py"
brk("C16", "export rounds the MPO tensors to 12 decimals to save space", "X9", _sub(
    PTM, '            pt_file.set_mpo_tensor(step, mpo)\n', '            pt_file.set_mpo_tensor(step, np.round(mpo, 12))\n'))
brk("C16", "simple import normalises the cap tensors", "X9", _sub(
    PTM, '            pt.set_cap_tensor(step, cap)\n', '            pt.set_cap_tensor(step, cap / np.linalg.norm(cap))\n'))
brk("C16", "HDF5 helper stores the real part when the imaginary part is 'negligible'", "X9", _sub(
    PTM, '    tensor = tensor.reshape(-1)\n    data[step] = tensor\n', '    tensor = tensor.reshape(-1)\n    if np.allclose(tensor.imag, 0.0):\n        tensor = tensor.real + 0.0j\n    data[step] = tensor\n'))
ok("C16", "HDF5 helper stores a contiguous copy", _sub(
    PTM, '    tensor = tensor.reshape(-1)\n    data[step] = tensor\n', '    flat = np.ascontiguousarray(tensor).reshape(-1)\n    data[step] = flat\n'))
ok("C16", "simple import copies each MPO tensor explicitly", _sub(
    PTM, '            pt.set_mpo_tensor(step, mpo)\n', '            pt.set_mpo_tensor(step, np.array(mpo, dtype=NpDtype).copy())\n'))

# ------------------------------------------------------------------ late-binding closures (C06 R4, C09 F6, C20 A10)
_MF_INFL = '        influence_list = [self._get_influence(bath)\n                for bath in self._parsed_parameters_dict["bath"]]\n'
def _mf_loop(body):
    return _sub(TE, _MF_INFL, '        influence_list = []\n        for bath in self._parsed_parameters_dict["bath"]:\n' + body)
for _pid, _rule in (("C06", "R4"), ("C09", "F6"), ("C20", "A10")):
    brk(_pid, "mean-field influence functions as lambdas in a loop reading the loop's bath", _rule, _mf_loop(
        '            infl = self._get_influence(bath)\n            influence_list.append(lambda dk: infl(dk))\n'))
    brk(_pid, "mean-field influence functions as lambdas in a comprehension reading its variable", _rule, _sub(
        TE, _MF_INFL, '        influence_list = [lambda dk: self._get_influence(bath)(dk)\n                for bath in self._parsed_parameters_dict["bath"]]\n'))
    ok(_pid, "mean-field influence functions as lambdas in a loop, bath bound by a default argument", _mf_loop(
        '            infl = self._get_influence(bath)\n            influence_list.append(lambda dk, infl=infl: infl(dk))\n'))
    ok(_pid, "mean-field influence functions built in a plain loop by the factory method", _mf_loop(
        '            influence_list.append(self._get_influence(bath))\n'))

# ------------------------------------------------------------------ list slots folded at read time (C18 O1, C07 V10)
_CT_STEP_ADD = '            steps = self._step_controls[pre_post].keys()\n            if time in steps:\n                self._step_controls[pre_post][time] = \\\n                    control_operation @ self._step_controls[pre_post][time]\n            else:\n                self._step_controls[pre_post][time] = control_operation\n'
_CT_PRE_GET = "            pre_control = self._step_controls['pre'][step] @ pre_control\n"
_CT_POST_GET = "            post_control = self._step_controls['post'][step] @ post_control\n"
def _ct_lists(fold):
    return _multi(
        _sub(CT, 'from copy import deepcopy\n', 'from copy import deepcopy\nfrom functools import reduce\n'),
        _sub(CT, _CT_STEP_ADD, '            self._step_controls[pre_post].setdefault(time, []).append(\n                control_operation)\n'),
        _sub(CT, _CT_PRE_GET, "            pre_control = " + fold.replace("SLOT", "self._step_controls['pre'][step]") + " @ pre_control\n"),
        _sub(CT, _CT_POST_GET, "            post_control = " + fold.replace("SLOT", "self._step_controls['post'][step]") + " @ post_control\n"))
for _pid, _rule in (("C18", "O1"), ("C07", "V10")):
    brk(_pid, "step controls kept as lists and folded with reduce(np.matmul): first added acts last", _rule,
        _ct_lists("reduce(np.matmul, SLOT)"))
    brk(_pid, "step controls kept as lists and folded with np.linalg.multi_dot", _rule,
        _ct_lists("np.linalg.multi_dot(SLOT + [np.identity(self.dimension**2)])"))
    ok(_pid, "step controls kept as lists and folded with the later addition on the left", 
       _ct_lists("reduce(lambda acc, op: op @ acc, SLOT)"))
    ok(_pid, "step controls kept as lists and folded with reduce(np.matmul) over the reversed list",
       _ct_lists("reduce(np.matmul, reversed(SLOT))"))

# ------------------------------------------------------------------ C08 H7: one transposition per leg pair in the backward pass
_AP_HEAD = '    indexed_pt_mpos = list(enumerate(pt_mpos))\n    if reverse:\n'
_AP_BODY_SYS = "        new_sys_edge = pt_mpo_node[3]\n        current_edges[i] ^ pt_mpo_node[0]\n        current_edges[-1] ^ pt_mpo_node[2]\n"
_AP_SYS_FLAGGED = _multi(
    _sub(SD, _AP_HEAD, '    indexed_pt_mpos = list(enumerate(pt_mpos))\n    sys_in, sys_out = (3, 2) if reverse else (2, 3)\n    if reverse:\n'),
    _sub(SD, _AP_BODY_SYS, "        new_sys_edge = pt_mpo_node[sys_out]\n        current_edges[i] ^ pt_mpo_node[0]\n        current_edges[-1] ^ pt_mpo_node[sys_in]\n"))
_BP_SYS_SWAP = '        pt_mpo = np.swapaxes(pt_mpo, 2, 3) # system propagator legs\n'
brk("C08", "system legs exchanged by the backward MPO copies AND by _apply_pt_mpos(reverse=True)", "H7", _AP_SYS_FLAGGED)
brk("C08", "backward MPO copies no longer exchange the system legs", "H7", _sub(SD, _BP_SYS_SWAP, ''))
ok("C08", "system legs exchanged by _apply_pt_mpos(reverse=True) instead of by the backward MPO copies", _multi(
    _AP_SYS_FLAGGED, _sub(SD, _BP_SYS_SWAP, '')))
ok("C03", "system legs exchanged by _apply_pt_mpos(reverse=True) instead of by the backward MPO copies", _multi(
    _AP_SYS_FLAGGED, _sub(SD, _BP_SYS_SWAP, '')))

# ------------------------------------------------------------------ C13 G7: stepping continues from the current step
brk("C13", "Tempo.compute ignores the steps already taken", "G7", _sub(
    TE, '        num_step = max(0, end_step - start_step)\n        return num_step\n\n    @property', '        num_step = max(0, end_step)\n        return num_step\n\n    @property'))
brk("C13", "PtTebd.compute counts its steps from the step it was initialised with", "G7", _sub(
    TEBD, '            while self.step < tmp_end_step:\n                self.compute_step()', '            for _ in range(max(0, tmp_end_step - self._start_step)):\n                self.compute_step()'))
ok("C13", "PtTebd.compute counts the remaining steps from the current step", _sub(
    TEBD, '            while self.step < tmp_end_step:\n                self.compute_step()', '            for _ in range(max(0, tmp_end_step - self.step)):\n                self.compute_step()'))

# ------------------------------------------------------------------ C14 T8: compute() changes state only through guarded stepping
_TEBD_TAIL = '            prog_bar.update(self.step - start_step)\n\n        return self.get_results()\n'
brk("C14", "PtTebd.compute applies the post controls of the step it stops at", "T8", _sub(
    TEBD, _TEBD_TAIL, '            prog_bar.update(self.step - start_step)\n\n        self._apply_controls(step=self.step, post=True)\n\n        return self.get_results()\n'))
brk("C14", "Tempo.compute re-initialises its back end before returning", "T8", _sub(
    TE, '                self._dynamics.add(self._time(step), state.reshape(dim, dim))\n            prog_bar.update(num_step)\n',
    '                self._dynamics.add(self._time(step), state.reshape(dim, dim))\n            prog_bar.update(num_step)\n        self._backend_instance.initialize()\n'))
ok("C14", "PtTebd.compute reads the bond dimensions after the loop", _sub(
    TEBD, _TEBD_TAIL, '            prog_bar.update(self.step - start_step)\n\n        bond_dims = self._t_mps.get_bond_dimensions()\n\n        return self.get_results()\n'))
ok("C14", "PtTebd.compute applies nothing after the loop when no step was taken", _sub(
    TEBD, _TEBD_TAIL, '            prog_bar.update(self.step - start_step)\n\n        if self.step is None:\n            self.initialize()\n\n        return self.get_results()\n'))

# ------------------------------------------------------------------ C15 U5: the estimator samples the system on the computation's window
_EST_A = '    num = 11\n    times = np.linspace(start_time, end_time, num, endpoint=True)\n    max_freq = _max_tdependentsystem_frequency(system, times)\n'
_EST_B = '        times = np.linspace(start_time, end_time, num, endpoint=True)\n        new_max_freq = _max_tdependentsystem_frequency(system, times)\n'
def _est(grid, helper=''):
    return _multi(
        _sub(TE, _EST_A, helper + '    num = 11\n    times = ' + grid + '\n    max_freq = _max_tdependentsystem_frequency(system, times)\n'),
        _sub(TE, _EST_B, '        times = ' + grid + '\n        new_max_freq = _max_tdependentsystem_frequency(system, times)\n'))
brk("C15", "system frequencies sampled on [0, end - start]", "U5", _est('np.linspace(0, end_time - start_time, num, endpoint=True)'))
brk("C15", "system frequencies sampled on [start, end - start]", "U5", _est('np.linspace(start_time, end_time - start_time, num, endpoint=True)'))
ok("C15", "system frequencies sampled through a local grid helper over [start, end]", _est(
    'sample_times(num)', '    def sample_times(count):\n        return np.linspace(start_time, end_time, count, endpoint=True)\n\n'))
ok("C15", "system frequencies sampled on [start, start + (end - start)]", _est(
    'np.linspace(start_time, start_time + (end_time - start_time), num, endpoint=True)'))

# ------------------------------------------------------------------ C11 K9: truncation relative to the largest singular value only
_SVD_CUT = '        chi = argmax(singular_values/amax(singular_values) < precision)\n        if not chi:\n            chi = len(singular_values)\n'
brk("C11", "Gibbs SVD truncation with an absolute floor at machine epsilon", "K9", _sub(
    TB, _SVD_CUT, '        threshold = max(precision * singular_values[0], np.finfo(float).eps)\n        chi = max(1, np.count_nonzero(singular_values >= threshold))\n'))
brk("C11", "Gibbs SVD truncation by the absolute size of the singular values", "K9", _sub(
    TB, _SVD_CUT, '        chi = argmax(singular_values < precision)\n        if not chi:\n            chi = len(singular_values)\n'))
ok("C11", "Gibbs SVD truncation written as s < precision * s[0]", _sub(
    TB, _SVD_CUT, '        cutoff = precision * singular_values[0]\n        chi = argmax(singular_values < cutoff)\n        if not chi:\n            chi = len(singular_values)\n'))
ok("C11", "Gibbs SVD truncation keeps at least one value, counted against the relative threshold", _sub(
    TB, _SVD_CUT, '        chi = max(1, np.count_nonzero(singular_values >= precision * amax(singular_values)))\n'))

# ------------------------------------------------------------------ single-slot memos (C16 X10, C03 M5, C20 A7)
_FPT_INIT = '        self._cap_tensors_data = None\n        self._cap_tensors_shape = None\n\n        if self._write:\n'
_FPT_SET = '        a delta between the input and output leg.\n        """\n        _set_data_and_shape(step,\n                            data=self._mpo_tensors_data,\n'
_FPT_GET_HEAD = '        `.transform_out`) when `transformed` is true.\n        """\n        tensor = _get_data_and_shape(step,\n                                     data=self._mpo_tensors_data,\n                                     shape=self._mpo_tensors_shape)\n        if transformed:\n'
_FPT_GET_TAIL = '            if self._transform_out is not None:\n                tensor = np.dot(tensor, self._transform_out)\n        return tensor\n\n    def get_cap_tensor(self, step: int) -> ndarray:\n        """\n        Get the cap tensor (vector) to terminate the PT-MPO at time step `step`.\n        """\n        try:'
def _slot_memo(init, test, store):
    return _multi(
        _sub(PTM, _FPT_INIT, '        self._cap_tensors_data = None\n        self._cap_tensors_shape = None\n        self._last_mpo = ' + init + '\n\n        if self._write:\n'),
        _sub(PTM, _FPT_SET, '        a delta between the input and output leg.\n        """\n        self._last_mpo = ' + init + '\n        _set_data_and_shape(step,\n                            data=self._mpo_tensors_data,\n'),
        _sub(PTM, _FPT_GET_HEAD, _FPT_GET_HEAD.replace('        tensor = _get_data_and_shape(step,', '        if ' + test + ':\n            return self._last_mpo[-1]\n        tensor = _get_data_and_shape(step,')),
        _sub(PTM, _FPT_GET_TAIL, _FPT_GET_TAIL.replace('        return tensor\n', '        self._last_mpo = ' + store + '\n        return tensor\n', 1)))
for _pid, _rule in (("C16", "X10"), ("C03", "M5"), ("C20", "A7")):
    ok(_pid, "file-backed get_mpo_tensor remembers its last result per (step, transformed)",
       _slot_memo('(None, None, None)', 'self._last_mpo[0] == step and self._last_mpo[1] == transformed',
                  '(step, transformed, tensor)'))

# ------------------------------------------------------------------ C19 P5: nothing that can raise after the timer start in enter()
UT = "oqupy/util.py"
_PB_ENTER = '        if self.title is not None:\n            print(self.title, file=self._file, flush=True)\n        with self._lock:\n            self._stopped = False\n            self._timer = Timer(1.0, self._print_status)\n            self._timer.start()\n        return self\n'
brk("C19", "ProgressBar.enter prints the first status line after starting its timer", "P5", _sub(
    UT, _PB_ENTER, _PB_ENTER.replace('        return self\n', '        self._print_status()\n        return self\n')))
brk("C19", "ProgressBar.enter prints the title after starting its timer", "P5", _sub(
    UT, _PB_ENTER, '        with self._lock:\n            self._stopped = False\n            self._timer = Timer(1.0, self._print_status)\n            self._timer.start()\n        if self.title is not None:\n            print(self.title, file=self._file, flush=True)\n        return self\n'))
ok("C19", "ProgressBar.enter resets its step after starting the timer (plain store)", _sub(
    UT, _PB_ENTER, _PB_ENTER.replace('        return self\n', '        self._step = None\n        return self\n')))
ok("C19", "ProgressBar.enter flushes its output stream before starting its timer", _sub(
    UT, _PB_ENTER, _PB_ENTER.replace('        with self._lock:\n', '        self._file.flush()\n        with self._lock:\n')))

# ------------------------------------------------------------------ C18 O1: grouping the stacked chain controls by site
_CC_LOOP = '        for ssc in ss_controls:\n            if ssc["step"] == step:\n                empty = False\n                if controls[ssc["site"]] is None:\n                    controls[ssc["site"]] = ssc["contr"]\n                else:\n                    controls[ssc["site"]] = \\\n                        ssc["contr"] @ controls[ssc["site"]]\n'
def _cc_grouped(seq):
    return _multi(
        _sub(CT, 'from copy import deepcopy\n', 'from copy import deepcopy\nfrom functools import reduce\nfrom itertools import groupby\n'),
        _sub(CT, _CC_LOOP, '        step_controls = [ssc for ssc in ss_controls if ssc["step"] == step]\n        empty = len(step_controls) == 0\n        for site, site_controls in groupby(' + seq + ',\n                                           key=lambda ssc: ssc["site"]):\n            controls[site] = reduce(\n                lambda acc, contr: contr @ acc,\n                [ssc["contr"] for ssc in site_controls])\n'))
brk("C18", "chain controls of a step grouped by site with groupby on the insertion-ordered list", "O1",
    _cc_grouped('step_controls'))
ok("C18", "chain controls of a step grouped by site with groupby on the list sorted by site",
   _cc_grouped('sorted(step_controls, key=lambda c: c["site"])'))

# ------------------------------------------------------------------ C17 W2 / W6: the reset of the writing flag in a helper
_FPT_CLOSE = '    def close(self):\n        """Close the HDF5 file."""\n        if self._f is not None:\n            if self._write and self._f.attrs["writing"]:\n                self._f.attrs["writing"] = False\n            self._f.close()\n'
_FPT_CLOSE_HELPER = '    def _finish_writing(self):\n        """Mark the file as complete."""\n        if self._write and self._f.attrs["writing"]:\n            self._f.attrs["writing"] = False\n        self._f.flush()\n\n    def close(self):\n        """Close the HDF5 file."""\n        if self._f is not None:\n            self._finish_writing()\n            self._f.close()\n'
ok("C17", "close() clears the writing flag through a helper that only close() calls", _sub(PTM, _FPT_CLOSE, _FPT_CLOSE_HELPER))
brk("C17", "the helper that clears the writing flag is also called when the file is created", "W6", _multi(
    _sub(PTM, _FPT_CLOSE, _FPT_CLOSE_HELPER),
    _sub(PTM, '        self.set_initial_tensor(initial_tensor=None)\n\n    def _read_file(self, filename: Text):',
         '        self.set_initial_tensor(initial_tensor=None)\n        self._finish_writing()\n\n    def _read_file(self, filename: Text):')))

# ------------------------------------------------------------------ C10 I7 / C04 D8: which bond matrices lie between two recorded sites
_GAP_LOOP = '            for i in range(a+1, b):\n                gam_tr = self._full_trace_gammas[i].copy()\n                lam = self._lambdas[i+1].copy()\n'
for _pid, _rule in (("C10", "I7"), ("C04", "D8")):
    brk(_pid, "gap loop of get_density_matrix takes the bond matrix to the LEFT of each skipped site", _rule, _sub(
        TEBDB, _GAP_LOOP, '            for i in range(a+1, b):\n                gam_tr = self._full_trace_gammas[i].copy()\n                lam = self._lambdas[i].copy()\n'))
    ok(_pid, "gap loop of get_density_matrix written with a shifted loop variable", _sub(
        TEBDB, _GAP_LOOP, '            for j in range(a, b-1):\n                i = j + 1\n                gam_tr = self._full_trace_gammas[j+1].copy()\n                lam = self._lambdas[j+2].copy()\n'))

# ------------------------------------------------------------------ final pre-control (C18 O2, C03 M10)
_CD_LOOP_HEAD = '        for step in range(num_steps+1):\n            # -- apply pre measurement control --\n            pre_measurement_control, post_measurement_control = controls(step)\n'
_CD_BREAK = '            if step == num_steps:\n                break\n\n            # -- extract current state -- update field --\n            if record_all:\n                caps = _get_caps(process_tensors, step)\n'
_CD_FINAL = '        # -- extract last state --\n        caps = _get_caps(process_tensors, step)\n'
for _pid, _rule in (("C18", "O2"), ("C03", "M10")):
    brk(_pid, "compute_dynamics loops over range(num_steps) without the extra iteration for the final pre-control", _rule, _multi(
        _sub(SD, _CD_LOOP_HEAD, _CD_LOOP_HEAD.replace('range(num_steps+1)', 'range(num_steps)')),
        _sub(SD, _CD_BREAK, _CD_BREAK.replace('            if step == num_steps:\n                break\n\n', '')),
        _sub(SD, _CD_FINAL, _CD_FINAL.replace('_get_caps(process_tensors, step)', '_get_compact_caps(process_tensors, num_steps)'.replace('_get_compact_caps', '_get_caps')))))
    ok(_pid, "compute_dynamics loops over range(num_steps) and applies the final pre-control after the loop", _multi(
        _sub(SD, _CD_LOOP_HEAD, _CD_LOOP_HEAD.replace('range(num_steps+1)', 'range(num_steps)')),
        _sub(SD, _CD_BREAK, _CD_BREAK.replace('            if step == num_steps:\n                break\n\n', '')),
        _sub(SD, _CD_FINAL, '        # -- pre measurement control of the last step --\n        pre_measurement_control, post_measurement_control = controls(num_steps)\n        if pre_measurement_control is not None:\n            current_node, current_edges = _apply_system_superoperator(\n                current_node, current_edges, pre_measurement_control)\n\n        # -- extract last state --\n        caps = _get_caps(process_tensors, num_steps)\n')))
    ok(_pid, "compute_dynamics break test written as `num_steps + 1 - 1 == step`", _sub(
        SD, '            if step == num_steps:\n                break\n\n            # -- extract current state -- update field --\n            if record_all:\n                caps = _get_caps(process_tensors, step)\n',
        '            if num_steps == step:\n                break\n\n            # -- extract current state -- update field --\n            if record_all:\n                caps = _get_caps(process_tensors, step)\n'))

# ------------------------------------------------------------------ C02 S8: numeric options tested with `is None`
_TP_SUBDIV = '            if subdiv_limit is None:\n                tmp_subdiv_limit = None\n            else:\n                tmp_subdiv_limit = int(subdiv_limit)\n'
brk("C02", "TempoParameters parses subdiv_limit with a truthiness test (0 becomes None)", "S8", _sub(
    TE, _TP_SUBDIV, '            tmp_subdiv_limit = int(subdiv_limit) if subdiv_limit else None\n'))
brk("C02", "TempoParameters parses subdiv_limit with `if not subdiv_limit`", "S8", _sub(
    TE, _TP_SUBDIV, '            if not subdiv_limit:\n                tmp_subdiv_limit = None\n            else:\n                tmp_subdiv_limit = int(subdiv_limit)\n'))
ok("C02", "TempoParameters parses subdiv_limit with a conditional expression on `is None`", _sub(
    TE, _TP_SUBDIV, '            tmp_subdiv_limit = None if subdiv_limit is None else int(subdiv_limit)\n'))

# ------------------------------------------------------------------ value equality vs lru_cache (C20 A1, C12 L6, C01 N6)
_PL_STR = '    def __str__(self) -> Text:\n        ret = []\n        ret.append(super().__str__())\n        ret.append("  alpha '
def _pl_eq(attrs):
    return _sub(BC, _PL_STR, '    def _parameters(self) -> tuple:\n        return (' + attrs + ')\n\n    def __eq__(self, other) -> bool:\n        if not isinstance(other, PowerLawSD):\n            return NotImplemented\n        return self._parameters() == other._parameters()\n\n    def __hash__(self) -> int:\n        return hash(self._parameters())\n\n' + _PL_STR)
for _pid, _rule in (("C20", "A1"), ("C12", "L6"), ("C01", "N6")):
    brk(_pid, "PowerLawSD compares and hashes by (alpha, zeta, cutoff, temperature): cutoff type left out", _rule,
        _pl_eq('self.alpha, self.zeta, self.cutoff, self.temperature'))
    ok(_pid, "PowerLawSD compares and hashes by all its parameters including the cutoff type",
       _pl_eq('self.alpha, self.zeta, self.cutoff, self.cutoff_type, self.temperature'))

# ------------------------------------------------------------------ time parameters tested for truthiness (C13 G8, C15 U6)
_T_START = '            tmp_start_time = float(start_time)\n'
for _pid, _rule in (("C13", "G8"), ("C15", "U6")):
    brk(_pid, "Tempo rejects a start time that is 'not given' by a truthiness test (t = 0 is rejected)", _rule, _sub(
        TE, _T_START, '            if not start_time:\n                raise ValueError("A start time is required.")\n            tmp_start_time = float(start_time)\n'))
    ok(_pid, "Tempo parses start_time as `float(start_time) if start_time else 0.0` (zero either way)", _sub(
        TE, _T_START, '            tmp_start_time = float(start_time) if start_time else 0.0\n'))
    ok(_pid, "Tempo parses start_time with an explicit None test", _sub(
        TE, _T_START, '            tmp_start_time = 0.0 if start_time is None else float(start_time)\n'))

# ------------------------------------------------------------------ validated caches (C09 F5, C20 A7)
_MFB_PROPS = '        prop_tuple_list = [\n            propagators(current_step, current_field, current_field_derivative) \\\n                for propagators, state in \\\n                    zip(self._propagators_list, current_state_list)]\n'
_MFB_INIT = '        self._propagators_list = propagators_list\n'
def _mfb_cache(key):
    return _multi(
        _sub(TB, _MFB_INIT, '        self._propagators_list = propagators_list\n        self._prop_tuple_list = None\n        self._prop_key = None\n', count=1),
        _sub(TB, _MFB_PROPS, '        prop_key = ' + key + '\n        if prop_key != self._prop_key:\n            self._prop_tuple_list = [\n                propagators(current_step, current_field,\n                            current_field_derivative) \\\n                    for propagators in self._propagators_list]\n            self._prop_key = prop_key\n        prop_tuple_list = self._prop_tuple_list\n'))
for _pid, _rule in (("C09", "F5"), ("C20", "A7")):
    brk(_pid, "mean-field back end reuses the propagators while the field and its derivative are unchanged", _rule,
        _mfb_cache('(current_field, current_field_derivative)'))
    ok(_pid, "mean-field back end reuses the propagators while step, field and derivative are unchanged",
       _mfb_cache('(current_step, current_field, current_field_derivative)'))

# ------------------------------------------------------------------ PT-TEBD attaches process tensors like the other consumers (C10 I10, C03 M1)
for _pid, _rule in (("C10", "I10"), ("C03", "M1")):
    brk(_pid, "PT-TEBD connects the site's physical leg to the output leg of the process tensor", _rule, _multi(
        _sub(TEBDB, '                pt[2] ^ self._phys_es[site]\n', '                pt[3] ^ self._phys_es[site]\n'),
        _sub(TEBDB, '                self._phys_es[site] = pt[3]\n', '                self._phys_es[site] = pt[2]\n')))
    ok(_pid, "PT-TEBD names the process-tensor legs before connecting them", _multi(
        _sub(TEBDB, '                pt[2] ^ self._phys_es[site]\n', '                sys_in, sys_out = 2, 3\n                pt[sys_in] ^ self._phys_es[site]\n'),
        _sub(TEBDB, '                self._phys_es[site] = pt[3]\n', '                self._phys_es[site] = pt[sys_out]\n')))

# ------------------------------------------------------------------ integrand helpers (C12 L5 / L8, C11 K8)
_ETA_T0 = "            def integrand(w):\n                return self._spectral_density(w) / w ** 2 * (\n                    (np.exp(-1j * w * tau) - 1) + 1j * w * tau)\n"
_ETA_HEAD = "        # convention is tau.imag < 0\n        if self.temperature == 0.0:\n            check_true(\n                matsubara is False,\n                'Matsubara correlations only defined for temperature > 0')\n" + _ETA_T0
_ETA_HELPER = "        # convention is tau.imag < 0\n        def vacuum_integrand(w):\n            return self._spectral_density(w) / w ** 2 * (\n                (np.exp(-1j * w * tau) - 1) + 1j * w * tau)\n\n        if self.temperature == 0.0:\n            check_true(\n                matsubara is False,\n                'Matsubara correlations only defined for temperature > 0')\n            integrand = vacuum_integrand\n"
for _pid, _rule in (("C12", "L8"), ("C11", "K8")):
    ok(_pid, "zero-temperature eta kernel extracted into a helper used at T = 0 only", _sub(BC, _ETA_HEAD, _ETA_HELPER))
    brk(_pid, "zero-temperature eta kernel extracted into a helper and reused beyond the overflow guard", _rule, _multi(
        _sub(BC, _ETA_HEAD, _ETA_HELPER),
        _sub(BC, _OV_ETA, "                else:\n                    inte = vacuum_integrand(w)\n")))

# ------------------------------------------------------------------ closure memo in a dict on self (C15 U7, C02 S7, C07 V9, C20 A7)
_TD_RETURN = '                return first_step, second_step\n        return propagators\n\n    @property\n    def hamiltonian(self) -> Callable[[float], ndarray]:'
_TD_CTOR = '        super().__init__(tmp_dimension, name, description)\n\n    def liouvillian(self, t: float) -> ndarray:\n        r"""\n        Returns the Liouvillian super-operator :math:`\\mathcal{L}(t)` with'
def _td_store(key):
    return _multi(
        _sub(SYS, _TD_CTOR, '        self._propagators = {}\n' + _TD_CTOR),
        _sub(SYS, _TD_RETURN, '                return first_step, second_step\n        computed = self._propagators.setdefault(\n            ' + key + ', {})\n        def stored_propagators(step: int):\n            """Look up (or create) the system propagators for `step`. """\n            if step not in computed:\n                computed[step] = propagators(step)\n            return computed[step]\n        return stored_propagators\n\n    @property\n    def hamiltonian(self) -> Callable[[float], ndarray]:'))
for _pid, _rule in (("C15", "U7"), ("C02", "S7"), ("C07", "V9"), ("C20", "A7")):
    brk(_pid, "time dependent propagators kept in a dict on the system keyed by (dt, tolerances) and step", _rule,
        _td_store('(dt, subdiv_limit, epsrel)'))
    ok(_pid, "time dependent propagators kept in a dict on the system keyed by (dt, start_time, tolerances) and step",
       _td_store('(dt, start_time, subdiv_limit, epsrel)'))

# ------------------------------------------------------------------ C11 K10: spectral reconstruction with the adjoint
_UP = '        first_step = expm(-1j*self._hamiltonian*dt/2.0)\n        second_step = expm(-1j*self._hamiltonian*dt/2.0)\n        def propagators(step: int):\n            """Create the system propagators (first and second half) for\n            the time step `step`  """\n            return first_step, second_step\n'
def _spectral(adj):
    return _multi(
        _sub(SYS, 'from scipy.linalg import expm\n', 'from scipy.linalg import expm, eigh\n'),
        _sub(SYS, _UP, '        energies, states = eigh(self._hamiltonian)\n        half_step = (states * np.exp(-1j*energies*dt/2.0)) @ ' + adj + '\n        def propagators(step: int):\n            """Create the system propagators (first and second half) for\n            the time step `step`  """\n            return half_step, half_step\n'))
brk("C11", "unitary half-step propagator rebuilt from the spectrum with the plain transpose of the eigenvectors", "K10",
    _spectral('states.T'))
ok("C11", "unitary half-step propagator rebuilt from the spectrum with the conjugate transpose of the eigenvectors",
   _spectral('states.conj().T'))

# ------------------------------------------------------------------ exchanged arguments (C16 X11, C05 E6)
_FPT_SUPER = '            super().__init__(\n                hilbert_space_dimension,\n                dt,\n                transform_in,\n                transform_out,\n                name,\n                description)\n            self._filename = tmp_filename\n'
for _pid, _rule in (("C16", "X11"), ("C05", "E6")):
    brk(_pid, "FileProcessTensor hands transform_out / transform_in to its base class in each other's positions", _rule, _sub(
        PTM, _FPT_SUPER, _FPT_SUPER.replace('                transform_in,\n                transform_out,\n', '                transform_out,\n                transform_in,\n')))
    ok(_pid, "FileProcessTensor hands its fields to the base class by keyword, in another order", _sub(
        PTM, _FPT_SUPER, '            super().__init__(\n                hilbert_space_dimension,\n                dt,\n                transform_out=transform_out,\n                transform_in=transform_in,\n                name=name,\n                description=description)\n            self._filename = tmp_filename\n'))
# ------------------------------------------------------------------ C20 A3: constructor local derived from a public-twin parameter
_CSD_CUT = '        self._cutoff_function = \\\n            lambda omega: CUTOFF_DICT[self.cutoff_type](omega, self.cutoff)\n'
brk("C20", "cutoff shape looked up once in the constructor and captured by the spectral-density closure", "A3", _sub(
    BC, _CSD_CUT, '        cutoff_function = CUTOFF_DICT[cutoff_type]\n        self._cutoff_function = \\\n            lambda omega: cutoff_function(omega, self.cutoff)\n'))
ok("C20", "cutoff shape looked up through self.cutoff_type by a local helper inside the closure", _sub(
    BC, _CSD_CUT, '        self._cutoff_function = \\\n            lambda omega: (lambda shape: shape(omega, self.cutoff))(CUTOFF_DICT[self.cutoff_type])\n'))

# ------------------------------------------------------------------ per-system control closures (C18 O7, C09 F6, C20 A10; benign for C02 / C03)
_WF_PREP = '    def prepare_controls(step: int, control:Control):\n        return control.get_controls(\n            step,\n            dt=dt,\n            start_time=start_time)\n'
_WF_USE = '            controls_tuple_list = [\n                prepare_controls(step, control)\n                for control in parsed_parameters_dict["control"]]\n'
def _wf_closures(bind):
    return _multi(
        _sub(SD, _WF_PREP, '    controls_list = [lambda step' + bind + ': control.get_controls(step,\n                                                       dt=dt,\n                                                       start_time=start_time)\n                     for control in parsed_parameters_dict["control"]]\n'),
        _sub(SD, _WF_USE, '            controls_tuple_list = [controls(step)\n                                   for controls in controls_list]\n'))
for _pid, _rule in (("C18", "O7"), ("C09", "F6"), ("C20", "A10")):
    brk(_pid, "per-system control look-ups as lambdas in a comprehension, control bound late", _rule, _wf_closures(''))
for _pid in ("C18", "C09", "C20", "C02", "C03"):
    ok(_pid, "per-system control look-ups as lambdas in a comprehension, control bound by a default argument",
       _wf_closures(', control=control'))

for _pid in ["C01", "C02", "C03", "C04", "C05", "C06", "C07", "C08", "C09", "C10", "C11", "C12", "C13",
             "C14", "C15", "C16", "C17", "C18", "C19", "C20"]:
    ok(_pid, "whole package re-printed with ast.unparse (layout, comments, line numbers)", _reformat_all)
    ok(_pid, "every module shifted by forty lines", _shift_lines)
    ok(_pid, "every function-local variable renamed (alpha-renaming of the whole package)",
       _generic.rename_locals)
    ok(_pid, "every two-armed if flipped to `if not c: B else: A`", _generic.flip_branches)
    ok(_pid, "keyword arguments of every call in reverse order", _generic.reverse_kwargs)
    ok(_pid, "operands of every comparison swapped (a < b -> b > a, a == b -> b == a)",
       _generic.swap_comparisons)
    ok(_pid, "call arguments evaluated into temporaries first (x = f(a + b) -> h = a + b; x = f(h))",
       _generic.hoist_arguments)
    ok(_pid, "positional arguments of calls to package functions / self methods passed by keyword",
       _generic.keyword_arguments)
    ok(_pid, "single-use temporaries written out at their use (t = e; f(t) -> f(e))",
       _generic.inline_temporaries)
    ok(_pid, "tuple unpacking of call results replaced by indexing a temporary",
       _generic.index_unpacking)
    ok(_pid, "temporaries, keyword arguments, renaming, branch flipping, comparison swapping and "
             "keyword reversal combined", _generic.all_rewrites)
    ok(_pid, "extract method everywhere: top-level loops / branches / with-blocks of every function "
             "moved into new private helpers", _generic.extract_blocks)
    ok(_pid, "two-armed ifs that assign one target written as conditional expressions",
       _generic.conditional_expressions)
    ok(_pid, "two-armed ifs with a plain default written as `x = default` + one-armed if",
       _generic.default_first)
    ok(_pid, "final return copied into the arms of the preceding if / elif / else",
       _generic.return_in_branches)
    ok(_pid, "append loops written as list comprehensions", _generic.loops_to_comprehensions)
    ok(_pid, "statement-level list comprehensions written as append loops",
       _generic.comprehensions_to_loops)
    ok(_pid, "integer counters updated with x = x + 1 instead of x += 1", _generic.counter_updates)

ok("C02", "selector locals renamed in Tempo._influence", _multi(
    _sub(TE, "tmp_deg_positions", "positions_pair", count=100)))
ok("C02", "TempoBackend counts the step first and indexes with step-1 (original style)", _sub(
    TB, """        next_step = self._step + 1
        prop_1, prop_2 = self._propagators(self._step)
        self._state = self.compute_system_step(next_step, prop_1, prop_2)
        self._step = next_step
""", """        self._step += 1
        prop_1, prop_2 = self._propagators(self._step-1)
        self._state = self.compute_system_step(self._step, prop_1, prop_2)
"""))
brk("C02", "step counted first but propagators indexed with the new step", "S2", _sub(
    TB, """        next_step = self._step + 1
        prop_1, prop_2 = self._propagators(self._step)
        self._state = self.compute_system_step(next_step, prop_1, prop_2)
        self._step = next_step
""", """        self._step += 1
        prop_1, prop_2 = self._propagators(self._step)
        self._state = self.compute_system_step(self._step, prop_1, prop_2)
"""))
brk("C15", "final-only label from the length of the state list", "U1", _sub(
    SD, "        times = [start_time + num_steps*dt]\n\n    return Dynamics(", "        times = [start_time + len(states)*dt]\n\n    return Dynamics("))
brk("C15", "all-steps labels start at dt", "U1", _sub(
    SD, "        times = start_time + np.arange(len(states))*dt", "        times = start_time + (1 + np.arange(len(states)))*dt"))
# ------------------------------------------------------------------ C01
_RECT = """            time_2 = float(dkmax) * dt \\
                + np.min([float(-dk) * dt,
                            1.0*dt + parameters.add_correlation_time])"""
brk("C01", "rectangle width from dk instead of -dk", "N1", _sub(TE, "np.min([float(-dk) * dt,", "np.min([float(dk) * dt,"))
brk("C01", "rectangle width forgets the cell itself", "N1", _sub(
    TE, "1.0*dt + parameters.add_correlation_time])", "parameters.add_correlation_time])"))
brk("C01", "rectangle starts one cell late", "N1", _sub(
    TE, "        time_1 = float(dkmax) * dt\n        if parameters.add_correlation_time is not None:",
    "        time_1 = float(dkmax + 1) * dt\n        if parameters.add_correlation_time is not None:"))
brk("C01", "zero additional correlation time treated as unset", "N1", _sub(
    TE, "        if parameters.add_correlation_time is not None:\n            time_2 = float(dkmax)",
    "        if parameters.add_correlation_time:\n            time_2 = float(dkmax)"))
brk("C01", "rectangle integrated as a square", "N1", _sub(TE, '        shape = "rectangle"', '        shape = "square"'))
brk("C01", "rectangle width takes the larger bound", "N1", _sub(TE, "+ np.min([float(-dk) * dt,", "+ np.max([float(-dk) * dt,"))
brk("C01", "square cell one separation off", "N1", _sub(
    TE, "        time_1 = float(dk) * dt\n        time_2 = None\n        shape = \"square\"",
    "        time_1 = float(dk - 1) * dt\n        time_2 = None\n        shape = \"square\""))
brk("C01", "cell width doubled", "N1", _sub(TE, "        delta=dt,\n        time_1=time_1,", "        delta=2*dt,\n        time_1=time_1,"))
brk("C01", "TEMPO window one influence short", "N2", _sub(TB, "int(0 - current_step),", "int(1 - current_step),"))
brk("C01", "TEMPO separation beyond the memory off by one", "N2", _sub(
    TB, "infl = self._influence(self._dkmax - current_step)", "infl = self._influence(self._dkmax - current_step + 1)"))
brk("C01", "TEMPO step == dkmax treated as beyond the memory", "N2", _sub(
    TB, "        elif current_step <= self._dkmax:", "        elif current_step < self._dkmax:"))
brk("C01", "TEMPO stores one influence too few", "N2", _sub(
    TB, "            dkmax_pre_compute = self._dkmax + 1", "            dkmax_pre_compute = max(1, self._dkmax)"))
brk("C01", "TEMPO joins the far influence on the near side", "N2", _sub(
    TB, """                mpo = na.join(infl_na,
                              mpo,""", """                mpo = na.join(mpo,
                              infl_na,"""))
brk("C01", "PT-TEMPO keeps dkmax influences instead of dkmax+1", "N2", _sub(
    PTB, "self._num_infl = min(num_steps, dkmax+1)", "self._num_infl = min(num_steps, max(1, dkmax))"))
brk("C01", "PT-TEMPO separation beyond the memory off by one", "N2", _sub(
    PTB, "dk = int(0 - self._step)", "dk = int(1 - self._step)"))
brk("C01", "PT-TEMPO end phase starts one step late", "N2", _sub(
    PTB, "end_phase = bool(self._step > self._num_steps - self._num_infl + 1)",
    "end_phase = bool(self._step > self._num_steps - self._num_infl + 2)"))
brk("C01", "PT-TEMPO full memory maps to num_steps - 1", "N2", _sub(
    PTT, "            dkmax = self._num_steps\n", "            dkmax = self._num_steps - 1\n"))
brk("C01", "tcut from dkmax + 1 steps", "N3", _sub(TE, "        tmp_tcut = dkmax * dt", "        tmp_tcut = (dkmax + 1) * dt"))
brk("C01", "dkmax from tcut*dt", "N3", _sub(TE, "tmp_dkmax = int(np.ceil(np.round(tcut/dt)))", "tmp_dkmax = int(np.ceil(np.round(tcut*dt)))"))
brk("C01", "absolute instead of relative truncation in the TEMPO sweep", "N4", _sub(
    TB, """                            max_truncation_err=self._epsrel,
                            relative=True)""", """                            max_truncation_err=self._epsrel,
                            relative=False)"""))
brk("C01", "PT-TEMPO zip-up truncates ten times harder", "N4", _sub(
    PTB, """                         max_truncation_err=self._epsrel,
                         relative=True,
                         copy=False)""", """                         max_truncation_err=10*self._epsrel,
                         relative=True,
                         copy=False)"""))
brk("C01", "TEMPO back end halves the tolerance it was given", "N4", _sub(
    TB, "        self._epsrel = epsrel\n        self._step = None\n        self._state = None",
    "        self._epsrel = epsrel / 2\n        self._step = None\n        self._state = None"))
ok("C01", "cell geometry with reordered factors, builtin min and an alias", _multi(
    _sub(TE, "        time_1 = float(dkmax) * dt\n        if parameters.add_correlation_time is not None:",
         "        act = parameters.add_correlation_time\n        time_1 = dt * dkmax\n        if act is not None:"),
    _sub(TE, """            time_2 = float(dkmax) * dt \\
                + np.min([float(-dk) * dt,
                            1.0*dt + parameters.add_correlation_time])""",
         "            width = min(dt + act, -dk * dt)\n            time_2 = time_1 + width")))
ok("C01", "branches of influence_matrix reordered", _sub(
    TE, """    if dk == 0:
        time_1 = 0.0
        time_2 = None
        shape = "upper-triangle"
    elif dk < 0:""", """    if dk > 0:
        time_1 = float(dk) * dt
        time_2 = None
        shape = "square"
    elif dk == 0:
        time_1 = 0.0
        time_2 = None
        shape = "upper-triangle"
    elif dk < 0:"""))
ok("C01", "TEMPO window index without the cast", _sub(TB, "int(0 - current_step),", "-current_step,"))
ok("C01", "TEMPO beyond-memory branch written with explicit comparison", _sub(
    TB, "        else:  # current_step > self._dkmax\n", "        elif current_step > self._dkmax:\n"))
ok("C01", "PT-TEMPO grow-phase separation via a temporary", _sub(
    PTB, "dk = int(0 - self._step)", "new_step = self._step\n                dk = -new_step"))
ok("C01", "PT-TEMPO end phase as a rearranged inequality", _sub(
    PTB, "end_phase = bool(self._step > self._num_steps - self._num_infl + 1)",
    "end_phase = self._num_steps - self._num_infl + 1 < self._step"))
brk("C01", "dkmax from the ceiling of the unrounded quotient tcut/dt", "N3", _sub(
    TE, "tmp_dkmax = int(np.ceil(np.round(tcut/dt)))", "tmp_dkmax = int(np.ceil(tmp_tcut/dt))"))
brk("C01", "dkmax from truncating the quotient tcut/dt", "N3", _sub(
    TE, "tmp_dkmax = int(np.ceil(np.round(tcut/dt)))", "tmp_dkmax = int(tcut/dt)"))
ok("C01", "dkmax from the rounded quotient without the redundant ceil", _sub(
    TE, "tmp_dkmax = int(np.ceil(np.round(tcut/dt)))", "tmp_dkmax = int(np.round(tmp_tcut/dt))"))
ok("C01", "tcut from dt*dkmax", _sub(TE, "        tmp_tcut = dkmax * dt", "        tmp_tcut = dt * dkmax"))
def _eta_memo(key: str, ret: str):
    return _multi(
        _sub(BC, "            lambda omega: self.j_function(omega) * self._cutoff_function(omega)\n",
             "            lambda omega: self.j_function(omega) * self._cutoff_function(omega)\n        self._eta_values = {}\n"),
        _sub(BC, "    @lru_cache(maxsize=2 ** 10, typed=False)\n    def eta_function(", "    def eta_function("),
        _sub(BC, r"(    def eta_function\(.*?)(        # real and imaginary part of the integrand\n)",
             lambda m: m.group(1) + f"        key = {key}\n        if key in self._eta_values:\n"
             "            return self._eta_values[key]\n" + m.group(2), regex=True),
        _sub(BC, "        if matsubara:\n            integral = integral.real\n        return -integral\n",
             f"        if matsubara:\n            integral = integral.real\n        self._eta_values[key] = -integral\n        return {ret}\n"))


for _pid in ("C12", "C20", "C11"):
    ok(_pid, "eta_function memoised per instance, keyed by all four arguments (value returned)",
       _eta_memo("(tau, matsubara, epsrel, subdiv_limit)", "-integral"))
    ok(_pid, "eta_function memoised per instance, keyed by all four arguments (slot returned)",
       _eta_memo("(tau, matsubara, epsrel, subdiv_limit)", "self._eta_values[key]"))
brk("C12", "eta_function memo leaves the matsubara flag out of the key", "L6",
    _eta_memo("(tau, epsrel, subdiv_limit)", "self._eta_values[key]"))
brk("C20", "eta_function memo leaves the matsubara flag out of the key", "A7",
    _eta_memo("(tau, epsrel, subdiv_limit)", "self._eta_values[key]"))
brk("C12", "eta_function memo leaves the tolerance out of the key", "L6",
    _eta_memo("(tau, matsubara)", "-integral"))
# ---------------------------------------- memo of prepared MPO tensors (C03 M5 / C20 A7b)
def _mpo_memo(invalidate: bool):
    subs = [
        _sub(PT, "        self._mpo_tensors = []\n        self._cap_tensors = []\n",
             "        self._mpo_tensors = []\n        self._prepared = {}\n        self._cap_tensors = []\n"),
        _sub(PT, """            raise IndexError("Process tensor index out of bound. ")
        tensor = self._mpo_tensors[step]
        if len(tensor.shape) == 3:
            tensor = util.create_delta(tensor, [0, 1, 2, 2])
        if transformed is False:
            return tensor
""", """            raise IndexError("Process tensor index out of bound. ")
        if transformed and step in self._prepared:
            return self._prepared[step]
        tensor = self._mpo_tensors[step]
        if len(tensor.shape) == 3:
            tensor = util.create_delta(tensor, [0, 1, 2, 2])
        if transformed is False:
            return tensor
"""),
        _sub(PT, """        if self._transform_out is not None:
            tensor = np.dot(tensor, self._transform_out)
        return tensor

    def get_cap_tensor(self, step: int) -> ndarray:""", """        if self._transform_out is not None:
            tensor = np.dot(tensor, self._transform_out)
        self._prepared[step] = tensor
        return tensor

    def get_cap_tensor(self, step: int) -> ndarray:"""),
    ]
    if invalidate:
        subs.append(_sub(PT, "        self._mpo_tensors[step] = np.array(tensor, dtype=NpDtype)\n",
                         "        self._mpo_tensors[step] = np.array(tensor, dtype=NpDtype)\n        self._prepared.pop(step, None)\n"))
    return _multi(*subs)


brk("C03", "prepared MPO tensors memoised, set_mpo_tensor leaves the memo", "M5", _mpo_memo(False))
brk("C20", "prepared MPO tensors memoised, set_mpo_tensor leaves the memo", "A7b", _mpo_memo(False))
ok("C03", "prepared MPO tensors memoised and dropped by set_mpo_tensor", _mpo_memo(True))
ok("C20", "prepared MPO tensors memoised and dropped by set_mpo_tensor", _mpo_memo(True))

# ---------------------------------------- Gibbs path orientation (C11 K5 / C04 D5)
brk("C11", "GibbsTempo hands the half-step propagator untransposed", "K5", _sub(
    TE, "                propagators(1)[0].T,\n", "                propagators(1)[0],\n"))
brk("C11", "read-out closes the path with the untransposed propagator", "K5", _sub(
    TB, "        result = self._prop.T\n", "        result = self._prop\n"))
brk("C04", "read-out closes the path with the untransposed propagator", "D5", _sub(
    TB, "        result = self._prop.T\n", "        result = self._prop\n"))
brk("C04", "free propagation step forgets the transpose", "D5", _sub(
    TB, "            free_prop = np.dot(tensor, self._prop.T)", "            free_prop = np.dot(tensor, self._prop)"))
_GIBBS_T_INSIDE = _multi(
    _sub(TE, "                propagators(1)[0].T,\n", "                propagators(1)[0],\n"),
    _sub(TB, "        self._prop = propagator\n", "        self._prop = propagator.T\n"))
ok("C11", "transpose moved from GibbsTempo into the back end's constructor", _GIBBS_T_INSIDE)
ok("C04", "transpose moved from GibbsTempo into the back end's constructor", _GIBBS_T_INSIDE)
ok("C11", "transposes written with np.transpose and a local alias", _multi(
    _sub(TB, "        result = self._prop.T\n", "        result = np.transpose(self._prop)\n"),
    _sub(TB, "            free_prop = np.dot(tensor, self._prop.T)", "            prop_t = self._prop.T\n            free_prop = np.dot(tensor, prop_t)")))

# ---------------------------------------- propagator derivative provenance (C08 H4)
brk("C08", "derivative of the full-step instead of the half-step propagator", "H4", _sub(
    SY, "            return expm(self.liouvillian(*parameterlist)*dt/2.0)", "            return expm(self.liouvillian(*parameterlist)*dt)"))
brk("C08", "imaginary part of the Jacobian taken from the real part", "H4", _sub(
    SY, "        jacfunim=Jacobian(lambda x: prop(x).imag)", "        jacfunim=Jacobian(lambda x: prop(x).real)"))
brk("C08", "real and imaginary Jacobians recombined without the imaginary unit", "H4", _sub(
    SY, "            jac=jacfunre(x)+1.0j*jacfunim(x)", "            jac=jacfunre(x)+jacfunim(x)"))
brk("C08", "unit-step secant of the propagator instead of its derivative", "H4", _multi(
    _sub(SY, "        jacfunre=Jacobian(lambda x: prop(x).real)\n        jacfunim=Jacobian(lambda x: prop(x).imag)\n", ""),
    _sub(SY, "            jac=jacfunre(x)+1.0j*jacfunim(x)\n\n            return [jac[:,i,:] for i in range(self._number_of_parameters)]",
         "            x=np.asarray(x,dtype=float)\n            return [prop(x+unit)-prop(x) for unit in np.eye(self._number_of_parameters)]")))
ok("C08", "half-step propagator written as expm(0.5*dt*L) through a helper", _sub(
    SY, "            return expm(self.liouvillian(*parameterlist)*dt/2.0)",
    "            liou = self.liouvillian(*parameterlist)\n            return expm(0.5*dt*liou)"))

# ---------------------------------------- dk handed on unchanged (C02 S1)
brk("C02", "PtTempo clamps dk before asking for the influence", "S1", _sub(
    PTT, "        return influence_matrix(\n            dk,\n            parameters=self._parameters,",
    "        dk = max(dk, -self._parameters.dkmax) if self._parameters.dkmax else dk\n        return influence_matrix(\n            dk,\n            parameters=self._parameters,"))
ok("C02", "PtTempo casts dk to int before asking for the influence", _sub(
    PTT, "        return influence_matrix(\n            dk,\n            parameters=self._parameters,",
    "        dk = int(dk)\n        return influence_matrix(\n            dk,\n            parameters=self._parameters,"))
brk("C11", "eta_function memo leaves the matsubara flag out of the key", "K6",
    _eta_memo("(tau, epsrel, subdiv_limit)", "-integral"))
# ---------------------------------------- memo of half-step generators (C08 H5 / C20 A7)
def _gen_memo(key: str):
    return _multi(
        _sub(SY, "        self._propagator_derivatives = propagator_derivatives\n        super().__init__(dimension, name, description)\n",
             "        self._propagator_derivatives = propagator_derivatives\n        self._generators = {}\n        super().__init__(dimension, name, description)\n"),
        _sub(SY, "    def get_propagators(\n            self,\n            dt: float,\n            parameters: ndarray) -> Callable[[int], Tuple[ndarray,ndarray]]:",
             "    def _halfstep_generator(self, dt, parameters):\n"
             f"        key = {key}\n"
             "        if key not in self._generators:\n"
             "            self._generators[key] = self.liouvillian(*tuple(parameters))*dt/2.0\n"
             "        return self._generators[key]\n\n"
             "    def get_propagators(\n            self,\n            dt: float,\n            parameters: ndarray) -> Callable[[int], Tuple[ndarray,ndarray]]:"),
        _sub(SY, "            pre_liou=self.liouvillian(*(list(parameters[2*step][:])))\n            post_liou=self.liouvillian(*(list(parameters[2*step+1][:])))\n            first_step = expm(pre_liou*dt/2.0)\n            second_step = expm(post_liou*dt/2.0)\n",
             "            pre_gen=self._halfstep_generator(dt, parameters[2*step][:])\n            post_gen=self._halfstep_generator(dt, parameters[2*step+1][:])\n            first_step = expm(pre_gen)\n            second_step = expm(post_gen)\n"))


brk("C08", "half-step generators memoised by the parameters only (dt missing in the key)", "H5",
    _gen_memo("tuple(parameters)"))
brk("C20", "half-step generators memoised by the parameters only (dt missing in the key)", "A7",
    _gen_memo("tuple(parameters)"))
ok("C08", "half-step generators memoised by (dt, parameters)", _gen_memo("(dt, tuple(parameters))"))
ok("C20", "half-step generators memoised by (dt, parameters)", _gen_memo("(dt, tuple(parameters))"))

# ---------------------------------------- setters keep copies (C03 M6 / C20 A8)
brk("C03", "set_mpo_tensor keeps the caller's buffer (np.asarray)", "M6", _sub(
    PT, "        self._mpo_tensors[step] = np.array(tensor, dtype=NpDtype)", "        self._mpo_tensors[step] = np.asarray(tensor, dtype=NpDtype)"))
brk("C20", "set_cap_tensor keeps the caller's buffer (np.asarray)", "A8", _sub(
    PT, "        self._cap_tensors[step] = np.array(tensor, dtype=NpDtype)", "        self._cap_tensors[step] = np.asarray(tensor, dtype=NpDtype)"))
brk("C03", "set_mpo_tensor stores the argument itself", "M6", _sub(
    PT, "        self._mpo_tensors[step] = np.array(tensor, dtype=NpDtype)", "        self._mpo_tensors[step] = tensor"))
ok("C03", "set_mpo_tensor copies explicitly", _sub(
    PT, "        self._mpo_tensors[step] = np.array(tensor, dtype=NpDtype)", "        self._mpo_tensors[step] = np.array(tensor, dtype=NpDtype, copy=True)"))
# ---------------------------------------- carried values of the mean-field stepping loop (C09 F4)
_MF_INIT = _sub(SD, '    title = "--> Compute dynamics with field:"\n',
                '    title = "--> Compute dynamics with field:"\n    field = initial_field\n'
                '    previous_state_list = parsed_parameters_dict["initial_state"]\n')
_MF_OLD = """            if step == 0:
                field = initial_field
            else:
                field = compute_field(
                    t - dt, dt, previous_state_list, field, state_list)
            previous_state_list = state_list
            if record_all:
"""
ok("C09", "field and previous states set up before the loop, Heun update under `step > 0`", _multi(
    _MF_INIT, _sub(SD, _MF_OLD, """            if step > 0:
                field = compute_field(
                    t - dt, dt, previous_state_list, field, state_list)
            previous_state_list = state_list
            if record_all:
""")))
brk("C09", "previous states only renewed when all steps are recorded", "F4", _multi(
    _MF_INIT, _sub(SD, _MF_OLD, """            if step > 0:
                field = compute_field(
                    t - dt, dt, previous_state_list, field, state_list)
            if record_all:
                previous_state_list = state_list
""")))
brk("C09", "previous states renewed only every other step", "F4", _sub(
    SD, "            previous_state_list = state_list\n            if record_all:\n",
    "            if step % 2 == 0:\n                previous_state_list = state_list\n            if record_all:\n"))
# ---------------------------------------- einsum spellings of the basis change (C05 E4 / C16 X5)
_TIN_S = """            tensor = np.dot(np.moveaxis(tensor, -2, -1),
                            self._transform_in.T)
            tensor = np.moveaxis(tensor, -1, -2)
"""
_TIN_F = """                tensor = np.dot(np.moveaxis(tensor, -2, -1),
                                self._transform_in.T)
                tensor = np.moveaxis(tensor, -1, -2)
"""
_EINSUM_OK = _multi(
    _sub(PT, _TIN_S, '            tensor = np.einsum("abij,ki->abkj", tensor, self._transform_in)\n'),
    _sub(PT, _TIN_F, '                tensor = np.einsum("abij,ki->abkj", tensor, self._transform_in)\n'),
    _sub(PT, "            tensor = np.dot(tensor, self._transform_out)\n",
         '            tensor = np.einsum("abij,jk->abik", tensor, self._transform_out)\n'),
    _sub(PT, "                tensor = np.dot(tensor, self._transform_out)\n",
         "                tensor = tensor @ self._transform_out\n"))
for _pid in ("C05", "C16", "C03"):
    ok(_pid, "basis change of the MPO tensors written with einsum / @ in both classes", _EINSUM_OK)
brk("C05", "file-backed get_mpo_tensor contracts the wrong index of transform_in (einsum)", "E4", _multi(
    _sub(PT, _TIN_F, '                tensor = np.einsum("abij,ik->abkj", tensor, self._transform_in)\n')))
brk("C16", "file-backed get_mpo_tensor contracts the wrong index of transform_in (einsum)", "X5", _multi(
    _sub(PT, _TIN_F, '                tensor = np.einsum("abij,ik->abkj", tensor, self._transform_in)\n')))
brk("C05", "in-memory get_mpo_tensor applies transform_out to the input leg", "E4", _sub(
    PT, "            tensor = np.dot(tensor, self._transform_out)\n",
    '            tensor = np.einsum("abij,ik->abkj", tensor, self._transform_out)\n'))

# ---------------------------------------- caps of rank-3 tensors (C03 M7 / C04 D6)
brk("C03", "rank-3 cap closed with trace_in instead of trace_square", "M7", _sub(
    PT, "                ten[2] ^ trace_square[0]\n                new_cap = ten @ last_cap @ trace_square",
    "                ten[2] ^ trace_in[0]\n                new_cap = ten @ last_cap @ trace_in"))
brk("C04", "rank-3 cap closed with trace_in instead of trace_square", "D6", _sub(
    PT, "                ten[2] ^ trace_square[0]\n                new_cap = ten @ last_cap @ trace_square",
    "                ten[2] ^ trace_in[0]\n                new_cap = ten @ last_cap @ trace_in"))
brk("C03", "file-backed caps built from raw tensors without a rank branch", "M7", _sub(
    PT, "            ten = tn.Node(self.get_mpo_tensor(step))\n            ten[1] ^ last_cap[0]",
    "            ten = tn.Node(self.get_mpo_tensor(step, transformed=False))\n            ten[1] ^ last_cap[0]"))

# ---------------------------------------- loop-carried values in compute_correlations_nt (C07 V8)
brk("C07", "the ordering mask narrows a last_times array shared by all schedule entries", "V8", _multi(
    _sub(SD, "    num_steps = len(schedule)\n    title = \"--> Compute correlations:\"",
         "    num_steps = len(schedule)\n    last_times = schedule[0][-1]\n    title = \"--> Compute correlations:\""),
    _sub(SD, "            last_times = schedule[i][-1]\n", "")))

# ---------------------------------------- bond matrices in a gap (C10 I7)
brk("C10", "bond matrices inside a gap of skipped sites dropped", "I7", _sub(
    TEBDB, """                gam_tr = self._full_trace_gammas[i].copy()
                lam = self._lambdas[i+1].copy()
                m[1] ^ gam_tr[0]
                gam_tr[1] ^ lam[0]
                m = m @ gam_tr @ lam
""", """                gam_tr = self._full_trace_gammas[i].copy()
                m[1] ^ gam_tr[0]
                m = m @ gam_tr
            if b > a+1:
                lam = self._lambdas[b].copy()
                m[1] ^ lam[0]
                m = m @ lam
"""))
ok("C10", "gap loop written over the bonds a+2..b", _sub(
    TEBDB, """            for i in range(a+1, b):
                gam_tr = self._full_trace_gammas[i].copy()
                lam = self._lambdas[i+1].copy()
""", """            for j in range(a+2, b+1):
                gam_tr = self._full_trace_gammas[j-1].copy()
                lam = self._lambdas[j].copy()
"""))
# ---------------------------------------- degeneracy classes by pairwise comparison (C06 R2)
def _pairwise(rtol: str):
    return _sub(BA, "    mat = np.array(matrix).round(decimals=DEFAULT_TOLERANCE_DEGENERACY)\n    return_map = np.unique(mat.T,return_inverse=True,axis=0)[1]\n",
                "    rows = np.array(matrix).T\n    atol = 10.0**(-DEFAULT_TOLERANCE_DEGENERACY)\n"
                f"    close = np.isclose(rows[:, np.newaxis, :], rows[np.newaxis, :, :], atol=atol{rtol}).all(axis=-1)\n"
                "    first_match = np.argmax(close, axis=1)\n    return_map = np.unique(first_match, return_inverse=True)[1]\n")


brk("C06", "degeneracy classes by np.isclose with its default relative tolerance", "R2", _pairwise(""))
ok("C06", "degeneracy classes by pairwise comparison with an absolute tolerance only", _pairwise(", rtol=0"))
# ---------------------------------------- vectorised scatter of the dk=0 influence (C02 S5 / C06 R1)
_PT_SCATTER = """                    for i1 in range(self._dimension**2):
                        tmp_mpo[west_degeneracy_map[i1]][i1]\\
                            [north_degeneracy_map[i1]] = \\
                            infl[north_degeneracy_map[i1]]
                        tmp_mps[i1][north_degeneracy_map[i1]] = \\
                            infl[north_degeneracy_map[i1]]/ scale
"""
_VEC_BAD = """                    north_vals, north_positions = np.unique(
                        north_degeneracy_map, return_index=True)
                    tmp_mpo[west_degeneracy_map[north_positions],
                            north_positions,
                            north_vals] = infl[north_vals]
                    tmp_mps[north_positions, north_vals] = \\
                        infl[north_vals] / scale
"""
_VEC_OK = """                    basis = np.arange(self._dimension**2)
                    tmp_mpo[west_degeneracy_map, basis, north_degeneracy_map] = \\
                        infl[north_degeneracy_map]
                    tmp_mps[basis, north_degeneracy_map] = \\
                        infl[north_degeneracy_map] / scale
"""
brk("C02", "PT-TEMPO fills one representative per degeneracy class only (vectorised scatter)", "S5",
    _sub(PTB, _PT_SCATTER, _VEC_BAD))
brk("C06", "PT-TEMPO fills one representative per degeneracy class only (vectorised scatter)", "R1",
    _sub(PTB, _PT_SCATTER, _VEC_BAD))
ok("C02", "PT-TEMPO scatter vectorised over all basis elements", _sub(PTB, _PT_SCATTER, _VEC_OK))
ok("C06", "PT-TEMPO scatter vectorised over all basis elements", _sub(PTB, _PT_SCATTER, _VEC_OK))
# ---------------------------------------- class membership of degenerate levels (C11 K7)
brk("C11", "Gibbs back end keeps only the first level of each degeneracy class", "K7", _sub(
    TB, """        inverse = array([[int(i == j) for i in inverse] for j in indices])
        return indices, inverse""", """        projector = eye(len(vals), dtype=int)[indices]
        return indices, projector"""))
ok("C11", "membership matrix by broadcasting instead of nested comprehensions", _sub(
    TB, """        inverse = array([[int(i == j) for i in inverse] for j in indices])
        return indices, inverse""", """        labels = array(inverse)
        member = (labels[None, :] == indices[:, None]).astype(int)
        return indices, member"""))

# ---------------------------------------- both parts of the numerical cell integral (C12 L7)
brk("C12", "imaginary part of the numerical cell integral skipped for 'real' functions", "L7", _multi(
    _sub(BC, "            complex(tmp_correlation_function(1.0))\n",
         "            tmp_value = tmp_correlation_function(1.0)\n            complex(tmp_value)\n"),
    _sub(BC, "        int_imag = integrate.dblquad(", "        if not np.iscomplexobj(self.correlation_function(1.0)):\n            return int_real + 0.0j\n        int_imag = integrate.dblquad(")))

# ---------------------------------------- traces recomputed only when missing (C14 T7 / C20 A7b)
_TR_GUARD = _sub(TEBDB, '        """Compute current traces of the augmented MPS. """\n        self.clear_traces()\n',
                 '        """Compute current traces of the augmented MPS. """\n        if self._total_trace is not None:\n            return\n')
brk("C14", "chain traces recomputed only when missing, never reset by the gates", "T7", _TR_GUARD)
brk("C20", "chain traces recomputed only when missing, never reset by the gates", "A7b", _TR_GUARD)
brk("C10", "chain traces recomputed only when missing, never reset by the gates", "I9", _TR_GUARD)
# ---------------------------------------- Control keeps its own copy (C20 A8)
brk("C20", "Control.add_single stores the caller's array itself", "A8", _sub(
    CT, "        control_operation = np.array(control_operation, dtype=NpDtype)\n", ""))
brk("C20", "Control.add_single converts with np.asarray", "A8", _sub(
    CT, "        control_operation = np.array(control_operation, dtype=NpDtype)\n",
    "        control_operation = np.asarray(control_operation, dtype=NpDtype)\n"))
ok("C20", "Control.add_single copies at the store", _multi(
    _sub(CT, "        control_operation = np.array(control_operation, dtype=NpDtype)\n", ""),
    _sub(CT, "                self._step_controls[pre_post][time] = control_operation\n",
         "                self._step_controls[pre_post][time] = control_operation.copy()\n"),
    _sub(CT, "                self._time_controls[pre_post][time] = control_operation\n",
         "                self._time_controls[pre_post][time] = np.array(control_operation)\n")))
# ---------------------------------------- optional fields read back independently (C16 X8)
brk("C16", "transforms read back as a pair: one sentinel drops both", "X8", _sub(
    PT, """        if _is_hdf5_none(transform_in):
            transform_in = None
        transform_out = np.array(self._f["transform_out"])
        if _is_hdf5_none(transform_out):
            transform_out = None
""", """        transform_out = np.array(self._f["transform_out"])
        if _is_hdf5_none(transform_in) or _is_hdf5_none(transform_out):
            transform_in, transform_out = None, None
"""))

# ---------------------------------------- all float-time controls of a step act (C18 O5)
brk("C18", "only the first float-time pre-control of a step acts", "O5", _sub(
    CT, """            pre_control = self._time_controls['pre'][times[0]] @ pre_control
            for t in times[1:]:
                pre_control = self._time_controls['pre'][t] @ pre_control
""", """            pre_control = self._time_controls['pre'][times[0]] @ pre_control
"""))
ok("C18", "float-time post-controls applied in one loop over the selection", _sub(
    CT, """            post_control = self._time_controls['post'][times[0]] @ post_control
            for t in times[1:]:
                post_control = self._time_controls['post'][t] @ post_control
""", """            for t in times:
                post_control = self._time_controls['post'][t] @ post_control
"""))

# ---------------------------------------- input conversions copy (C20 A8)
brk("C20", "Lindblad operators converted with np.asarray", "A8", _sub(
    SY, "                np.array(lindblad_operator, dtype=NpDtype))", "                np.asarray(lindblad_operator, dtype=NpDtype))"))
brk("C20", "Hamiltonian converted with copy=False", "A8", _sub(
    SY, "        tmp_hamiltonian = np.array(hamiltonian, dtype=NpDtype)", "        tmp_hamiltonian = np.array(hamiltonian, dtype=NpDtype, copy=False)"))

# ---------------------------------------- persistent pool that is shut down (C10 / C19)
# ---------------------------------------- trace vectors and transforms (C03 M7 / M8)
brk("C03", "trace_out pushed through the transposed transform", "M8", _sub(
    PT, "            self._trace_out = self._transform_out @ self._trace", "            self._trace_out = self._trace @ self._transform_out"))
brk("C03", "trace_in pushed through the transposed transform", "M8", _sub(
    PT, "            self._trace_in = self._trace @ self._transform_in", "            self._trace_in = self._transform_in @ self._trace"))
ok("C03", "trace vectors written with np.dot", _multi(
    _sub(PT, "            self._trace_out = self._transform_out @ self._trace", "            self._trace_out = np.dot(self._transform_out, self._trace)"),
    _sub(PT, "            self._trace_in = self._trace @ self._transform_in", "            self._trace_in = np.dot(self._transform_in.T, self._trace)")))
brk("C03", "file-backed caps close transformed tensors with the transformed trace vectors", "M7", _sub(
    PT, "            trace_in = tn.Node(self._trace)\n            trace_out = tn.Node(self._trace)\n",
    "            trace_in = tn.Node(self._trace_in)\n            trace_out = tn.Node(self._trace_out)\n"))

# ---------------------------------------- transposition of the stored superoperators (C05 E2 / C02 S6)
brk("C05", "PT-TEMPO stores transform_in without the transpose", "E2", _sub(
    PTT, """            transform_in = left_right_super(unitary.conjugate().T,
                                            unitary).T""", """            transform_in = left_right_super(unitary.conjugate().T,
                                            unitary)""", count=1))
brk("C02", "PT-TEMPO hands over the TEMPO back end's pair (no transposes, swapped)", "S6", _multi(
    _sub(PTT, """            transform_in = left_right_super(unitary.conjugate().T,
                                            unitary).T
            transform_out = left_right_super(unitary,
                                             unitary.conjugate().T).T""", """            transform_in = left_right_super(unitary,
                                            unitary.conjugate().T)
            transform_out = left_right_super(unitary.conjugate().T,
                                             unitary)""", count=1)))
brk("C05", "TEMPO back end rotates out with the untransposed superoperator", "E2", _sub(
    TB, "                tmp = np.dot(tmp, self._super_u.T)", "                tmp = np.dot(tmp, self._super_u)"))

# ---------------------------------------- raw tensors through a file (C05 E5)
brk("C05", "import copies transformed tensors next to the transforms", "E5", _sub(
    PT, "                mpo = pt_file.get_mpo_tensor(step, transformed=False)", "                mpo = pt_file.get_mpo_tensor(step)"))
# ---------------------------------------- lazily initialised attribute as a memo (C07 V9 / C20 A7)
_LAZY = _multi(
    _sub(SY, "        first_step = expm(self.liouvillian()*dt/2.0)\n        second_step = expm(self.liouvillian()*dt/2.0)\n",
         "        if self._half_step is None:\n            self._half_step = expm(self.liouvillian()*dt/2.0)\n        first_step = self._half_step\n        second_step = self._half_step\n"),
    _sub(SY, "        self._hamiltonian = _check_hamiltonian(hamiltonian)\n",
         "        self._hamiltonian = _check_hamiltonian(hamiltonian)\n        self._half_step = None\n", count=1))
brk("C07", "System keeps its first half-step propagator whatever the later dt", "V9", _LAZY)
brk("C20", "System keeps its first half-step propagator whatever the later dt", "A7", _LAZY)

# ---------------------------------------- layout-dependent flattening (C08 H6 / C20 A4)
_RAVEL_K = _sub(GR, "        target_ndarray = target_derivative\n        target_ndarray = target_ndarray.reshape(hs_dim**2)\n",
                "        target_ndarray = np.ravel(target_derivative, order='K')\n")
brk("C08", "target derivative flattened in memory order", "H6", _RAVEL_K)
brk("C20", "target derivative flattened in memory order", "A4", _RAVEL_K)

# ---------------------------------------- chain weights (C10 I5)
brk("C10", "last-bond weight promoted in an elif (two-site chain)", "I5", _sub(
    SY, "            factor_l = 1 if i == 0 else 0.5\n            factor_r = 1 if i == len(self)-2 else 0.5\n",
    "            factor_l, factor_r = 0.5, 0.5\n            if i == 0:\n                factor_l = 1.0\n            elif i == len(self)-2:\n                factor_r = 1.0\n"))
ok("C10", "chain weights by two independent if statements", _sub(
    SY, "            factor_l = 1 if i == 0 else 0.5\n            factor_r = 1 if i == len(self)-2 else 0.5\n",
    "            factor_l, factor_r = 0.5, 0.5\n            if i == 0:\n                factor_l = 1.0\n            if i == len(self)-2:\n                factor_r = 1.0\n"))

# ---------------------------------------- rotation with / without degeneracy reduction (C06 R3)
brk("C06", "non-unique branch only: rotation skipped when degeneracy maps are used", "R3", _sub(
    TB, """                tmp = dot(moveaxis(infl_four_legs, 1, -1),
                        self._super_u_dagg)
                tmp = moveaxis(tmp, -1, 1)
                tmp = np.dot(tmp, self._super_u.T)
                infl_four_legs = tmp
""", """                if self._degeneracy_maps is None:
                    tmp = dot(moveaxis(infl_four_legs, 1, -1),
                            self._super_u_dagg)
                    tmp = moveaxis(tmp, -1, 1)
                    tmp = np.dot(tmp, self._super_u.T)
                    infl_four_legs = tmp
"""))
ok("C11", "Gibbs: remaining steps via a temporary", _sub(
    TE, "        num_step = max(\n            0, self._parameters.n_steps - 1 - self._backend_instance.step)",
    "        done = self._backend_instance.step\n        last = self._parameters.n_steps - 1\n        num_step = max(0, last - done)"))
ok("C12", "square closed form with reordered terms", _sub(
    BC, "            integral = self.eta_function(time_1 + delta, **kwargs) \\\n                       - 2.0 * self.eta_function(time_1, **kwargs) \\\n                       + self.eta_function(time_1 - delta, **kwargs)",
    "            integral = self.eta_function(time_1 - delta, **kwargs) \\\n                       + self.eta_function(delta + time_1, **kwargs) \\\n                       - self.eta_function(time_1, **kwargs) * 2"))
ok("C12", "T=0 eta kernel without inner parentheses", _sub(
    BC, "                    (np.exp(-1j * w * tau) - 1) + 1j * w * tau)", "                    np.exp(-1j * tau * w) + 1j * tau * w - 1)"))

# ---------------------------------------- round 6: storage layout (C16 X12 / C03 M11), closing vectors (C06 R5)
_FLAT_OLD = "    tensor = tensor.reshape(-1)\n    data[step] = tensor\n"
for _pid, _rule in (("C16", "X12"), ("C03", "M11")):
    brk(_pid, "file-backed tensors flattened in Fortran order", _rule, _sub(
        PT, _FLAT_OLD, "    data[step] = tensor.flatten(order='F')\n"))
    brk(_pid, "file-backed tensors flattened in memory order (ravel 'A')", _rule, _sub(
        PT, _FLAT_OLD, "    data[step] = tensor.ravel('A')\n"))
    ok(_pid, "file-backed tensors flattened with ravel() (logical order)", _sub(
        PT, _FLAT_OLD, "    data[step] = tensor.ravel()\n"))
    ok(_pid, "file-backed tensors flattened with an explicit order='C'", _sub(
        PT, _FLAT_OLD, "    data[step] = np.ravel(tensor, order='C')\n"))
_SUMS_OLD = """            sum_north = np.ones(np.max(self._bath.north_degeneracy_map)+1,
                                dtype=float)
            sum_west = np.ones(np.max(self._bath.west_degeneracy_map)+1,
                               dtype=float)
"""
brk("C06", "PtTempo closes the north leg with the class sizes", "R5", _sub(
    PTT, _SUMS_OLD, """            sum_north = np.bincount(self._bath.north_degeneracy_map).astype(float)
            sum_west = np.ones(np.max(self._bath.west_degeneracy_map)+1,
                               dtype=float)
"""))
brk("C06", "PtTempo closes the west leg with np.full(.., 2.0)", "R5", _sub(
    PTT, _SUMS_OLD, """            sum_north = np.ones(np.max(self._bath.north_degeneracy_map)+1,
                                dtype=float)
            sum_west = np.full(np.max(self._bath.west_degeneracy_map)+1, 2.0)
"""))
ok("C06", "PtTempo builds both closing vectors of ones in a comprehension over the maps", _sub(
    PTT, _SUMS_OLD, """            sum_north, sum_west = [np.ones(np.max(deg_map)+1, dtype=float)
                                   for deg_map in (self._bath.north_degeneracy_map,
                                                   self._bath.west_degeneracy_map)]
"""))
ok("C06", "PtTempo builds the closing vectors with ones_like over the class labels", _sub(
    PTT, _SUMS_OLD, """            sum_north = np.ones_like(np.arange(np.max(self._bath.north_degeneracy_map)+1),
                                     dtype=float)
            sum_west = np.ones(np.max(self._bath.west_degeneracy_map)+1,
                               dtype=float).astype(float)
"""))

# ---------------------------------------- None is a setting of its own (C02 S9 / C09 F7)
_SD_PARSE = "    num_envs = len(process_tensors)\n\n    # -- prepare propagators --\n"
for _pid, _rule in (("C02", "S9"), ("C09", "F7")):
    brk(_pid, "compute_dynamics turns subdiv_limit=None into the default", _rule, _sub(
        SD, _SD_PARSE, "    num_envs = len(process_tensors)\n    if subdiv_limit is None:\n"
        "        subdiv_limit = SUBDIV_LIMIT\n\n    # -- prepare propagators --\n"))
    brk(_pid, "TempoParameters stores the default when subdiv_limit is None", _rule, _sub(
        TE, "            if subdiv_limit is None:\n                tmp_subdiv_limit = None\n",
        "            if subdiv_limit is None:\n                tmp_subdiv_limit = SUBDIV_LIMIT\n"))
    ok(_pid, "compute_dynamics converts a given subdiv_limit to int and keeps None", _sub(
        SD, _SD_PARSE, "    num_envs = len(process_tensors)\n    if subdiv_limit is not None:\n"
        "        subdiv_limit = int(subdiv_limit)\n\n    # -- prepare propagators --\n"))
    ok(_pid, "TempoParameters parses subdiv_limit with a conditional expression", _sub(
        TE, "            if subdiv_limit is None:\n                tmp_subdiv_limit = None\n"
        "            else:\n                tmp_subdiv_limit = int(subdiv_limit)\n",
        "            tmp_subdiv_limit = None if subdiv_limit is None else int(subdiv_limit)\n"))

# ---------------------------------------- single-site gate convention (C04 D9 / C10 I11)
_SG_OLD = "        matrix = tn.Node(gate.tensors[0])\n        matrix[1] ^ self._phys_es[site]\n        self._phys_es[site] = matrix[0]\n"
for _pid, _rule in (("C04", "D9"), ("C10", "I11")):
    brk(_pid, "apply_site_gate contracts the output axis of the control", _rule, _sub(
        TEBDB, _SG_OLD, "        matrix = tn.Node(gate.tensors[0])\n        matrix[0] ^ self._phys_es[site]\n        self._phys_es[site] = matrix[1]\n"))
    brk(_pid, "apply_site_gate builds the node from the transposed control but keeps the axes", _rule, _sub(
        TEBDB, _SG_OLD, "        matrix = tn.Node(gate.tensors[0].T)\n        matrix[1] ^ self._phys_es[site]\n        self._phys_es[site] = matrix[0]\n"))
    brk(_pid, "PtTebd hands the controls over transposed", _rule, _sub(
        TEBD, "                control_gates.append(SiteGate(site, control))", "                control_gates.append(SiteGate(site, control.T))"))
    ok(_pid, "apply_site_gate builds the node from the transposed control and swaps the axes", _sub(
        TEBDB, _SG_OLD, "        matrix = tn.Node(gate.tensors[0].T)\n        matrix[0] ^ self._phys_es[site]\n        self._phys_es[site] = matrix[1]\n"))
    ok(_pid, "apply_site_gate names the two legs of the control first", _sub(
        TEBDB, _SG_OLD, "        matrix = tn.Node(gate.tensors[0])\n        out_edge, in_edge = matrix[0], matrix[1]\n        in_edge ^ self._phys_es[site]\n        self._phys_es[site] = out_edge\n"))

# ---------------------------------------- getters do not write the stores of the setters (C02 S10 / C16 X13 / C03 M12)
_GET_TAIL = "        if self._transform_out is not None:\n            tensor = np.dot(tensor, self._transform_out)\n        return tensor\n\n    def get_cap_tensor(self, step: int) -> ndarray:"
for _pid, _rule in (("C02", "S10"), ("C16", "X13"), ("C03", "M12")):
    brk(_pid, "SimpleProcessTensor.get_mpo_tensor writes the returned tensor back into the store", _rule, _sub(
        PT, _GET_TAIL, "        if self._transform_out is not None:\n            tensor = np.dot(tensor, self._transform_out)\n        self._mpo_tensors[step] = tensor\n        return tensor\n\n    def get_cap_tensor(self, step: int) -> ndarray:"))
    ok(_pid, "SimpleProcessTensor.get_mpo_tensor counts its reads in an attribute of its own", _sub(
        PT, _GET_TAIL, "        if self._transform_out is not None:\n            tensor = np.dot(tensor, self._transform_out)\n        self._reads = getattr(self, '_reads', 0) + 1\n        return tensor\n\n    def get_cap_tensor(self, step: int) -> ndarray:"))

# ---------------------------------------- stored (diagonalised) coupling operator (C05 E7 / C07 V11)
_CO_OLD = "            coup_op = self.bath.unitary_transform \\\n                @ self.bath.coupling_operator \\\n                @ self.bath.unitary_transform.conjugate().T\n"
for _pid, _rule in (("C05", "E7"), ("C07", "V11")):
    brk(_pid, "bath dynamics uses the stored coupling operator without rotating it back", _rule, _sub(
        BD, _CO_OLD, "            coup_op = self.bath.coupling_operator\n"))
    brk(_pid, "bath dynamics rotates the coupling operator with U^T instead of U^dagger", _rule, _sub(
        BD, _CO_OLD, "            coup_op = self.bath.unitary_transform \\\n                @ self.bath.coupling_operator \\\n                @ self.bath.unitary_transform.T\n"))
    ok(_pid, "bath dynamics rotates the coupling operator back through two locals", _sub(
        BD, _CO_OLD, "            unitary = self.bath.unitary_transform\n            diagonal = self.bath.coupling_operator\n"
        "            coup_op = unitary @ diagonal @ unitary.conj().T\n"))

# ---------------------------------------- one gate per bond (C10 I12)
_TL_OLD = "        all_gates.append(gate)\n\n    gates_even = all_gates[0::2]"
brk("C10", "compute_trotter_layers reuses the first gate for every bond", "I12", _sub(
    MM, _TL_OLD, "        all_gates.append(gate if not all_gates else all_gates[0])\n\n    gates_even = all_gates[0::2]"))
brk("C10", "compute_trotter_layers builds every gate for site 0", "I12", _sub(
    MM, "                               site=i,\n                               hs_dim_l=hs_dims[i],", "                               site=0,\n                               hs_dim_l=hs_dims[i],"))
ok("C10", "compute_trotter_layers appends the gate without a local", _sub(
    MM, """        gate = compute_nn_gate(liouvillian = liouv,
                               site=i,
                               hs_dim_l=hs_dims[i],
                               hs_dim_r=hs_dims[i+1],
                               dt=dt,
                               epsrel=epsrel)
        all_gates.append(gate)
""", """        all_gates.append(compute_nn_gate(liouvillian=liouv, site=i, hs_dim_l=hs_dims[i],
                                         hs_dim_r=hs_dims[i+1], dt=dt, epsrel=epsrel))
"""))
ok("C10", "compute_trotter_layers collects the gates in a comprehension", _sub(
    MM, """    all_gates = []
    for i, liouv in enumerate(nn_full_liouvillians):
        gate = compute_nn_gate(liouvillian = liouv,
                               site=i,
                               hs_dim_l=hs_dims[i],
                               hs_dim_r=hs_dims[i+1],
                               dt=dt,
                               epsrel=epsrel)
        all_gates.append(gate)
""", """    all_gates = [compute_nn_gate(liouvillian=liouv, site=i, hs_dim_l=hs_dims[i],
                                 hs_dim_r=hs_dims[i+1], dt=dt, epsrel=epsrel)
                 for i, liouv in enumerate(nn_full_liouvillians)]
"""))

# ---------------------------------------- new closures are written out (C08 H2 through a closure)
_BP_OLD = """            first_half_prop, second_half_prop = propagators(step)
            pt_mpos = _get_pt_mpos_backprop(mpo_list, step)

            current_node, current_edges = _apply_system_superoperator(
                current_node, current_edges, second_half_prop.T)

            current_node, current_edges = _apply_pt_mpos(
                current_node, current_edges, pt_mpos, reverse=True)

            current_node, current_edges = _apply_system_superoperator(
                current_node, current_edges, first_half_prop.T)
"""
_BP_CLOSURE = """    def adjoint_propagators(step: int):
        first_half_prop, second_half_prop = propagators(step)
        return %s

    # -- prepare controls --
    def controls(step: int):"""
_BP_NEW = """            first_half_prop, second_half_prop = adjoint_propagators(step)
            pt_mpos = _get_pt_mpos_backprop(mpo_list, step)

            current_node, current_edges = _apply_system_superoperator(
                current_node, current_edges, second_half_prop)

            current_node, current_edges = _apply_pt_mpos(
                current_node, current_edges, pt_mpos, reverse=True)

            current_node, current_edges = _apply_system_superoperator(
                current_node, current_edges, first_half_prop)
"""
brk("C08", "backward pass takes the transposed propagators from a closure that returns them exchanged", "H2", _multi(
    _sub(GR, "    # -- prepare controls --\n    def controls(step: int):", _BP_CLOSURE % "second_half_prop.T, first_half_prop.T"),
    _sub(GR, _BP_OLD, _BP_NEW)))
ok("C08", "backward pass takes the transposed propagators from a closure (same order)", _multi(
    _sub(GR, "    # -- prepare controls --\n    def controls(step: int):", _BP_CLOSURE % "first_half_prop.T, second_half_prop.T"),
    _sub(GR, _BP_OLD, _BP_NEW)))

# ---------------------------------------- rules shared with other properties (C01 N7, C05 E8)
brk("C01", "TEMPO back end builds the rotation with the column-stacking formula kron(U*, U)", "N7", _multi(
    _sub(TB, """        self._super_u = op.left_right_super(
            self._unitary_transform,
            self._unitary_transform.conjugate().T)
        self._super_u_dagg = op.left_right_super(
            self._unitary_transform.conjugate().T,
            self._unitary_transform)
""", """        unitary = self._unitary_transform
        self._super_u = np.kron(unitary.conjugate(), unitary)
        self._super_u_dagg = self._super_u.conjugate().T
""")))
brk("C05", "file process tensor is re-opened with transform_in under both names", "E8", _sub(
    PT, '        transform_out = np.array(self._f["transform_out"])', '        transform_out = np.array(self._f["transform_in"])'))

# ---------------------------------------- restart resets the records (C13 G9 / C14 T9), creating open (C17 W4)
_INIT_OLD = """        self._results = {}
        self._t_mps = PtTebdBackend(
                gammas=self._initial_augmented_mps.gammas,
                lambdas=self._initial_augmented_mps.lambdas,
                epsrel=self._parameters.epsrel,
                config=self._backend_config)
        self._init_results()
"""
_INIT_BACKEND = """        self._t_mps = PtTebdBackend(
                gammas=self._initial_augmented_mps.gammas,
                lambdas=self._initial_augmented_mps.lambdas,
                epsrel=self._parameters.epsrel,
                config=self._backend_config)
"""
for _pid, _rule in (("C13", "G9"), ("C14", "T9")):
    brk(_pid, "PtTebd creates its results in the constructor only; initialize() keeps them", _rule, _multi(
        _sub(TEBD, "        self._results = None\n        self._step = None\n", "        self._step = None\n        self._init_results()\n"),
        _sub(TEBD, _INIT_OLD, _INIT_BACKEND)))
    ok(_pid, "PtTebd.initialize() re-creates the results through _init_results() alone", _sub(
        TEBD, _INIT_OLD, _INIT_BACKEND + "        self._init_results()\n"))
brk("C17", "_create_file checks for the file itself and always opens with 'w'", "W4", _sub(
    PT, """        if self._overwrite:
            self._f = h5py.File(filename, "w")
        else:
            self._f = h5py.File(filename, "x")
""", """        if not self._overwrite and os.path.exists(filename):
            raise FileExistsError(f"The file '{filename}' already exists.")
        self._f = h5py.File(filename, "w")
"""))
ok("C17", "_create_file picks the open mode in a conditional expression first", _sub(
    PT, """        if self._overwrite:
            self._f = h5py.File(filename, "w")
        else:
            self._f = h5py.File(filename, "x")
""", """        if self._overwrite:
            self._f = h5py.File(filename, mode="w")
        else:
            self._f = h5py.File(filename, mode="x")
"""))

# ---------------------------------------- imaginary-time path keeps its whole memory (C11 K11)
_GB_OLD = "                max_step=max_step,\n                config=self._backend_config)"
brk("C11", "GibbsTempo bounds the MPS length by MAX_DKMAX", "K11", _multi(
    _sub(TE, "        max_step = self._parameters.n_steps\n", "        max_step = self._parameters.n_steps\n        max_mps_length = min(max_step, 256)\n"),
    _sub(TE, _GB_OLD, "                max_step=max_step,\n                max_mps_length=max_mps_length,\n                config=self._backend_config)")))
brk("C11", "GibbsTempo passes a fixed memory length of 64 sites", "K11", _sub(
    TE, _GB_OLD, "                max_step=max_step,\n                max_mps_length=64,\n                config=self._backend_config)"))
ok("C11", "GibbsTempo passes the number of steps as memory length explicitly", _sub(
    TE, _GB_OLD, "                max_step=max_step,\n                max_mps_length=max_step,\n                config=self._backend_config)"))
ok("C11", "GibbsTempo passes max_mps_length=None explicitly", _sub(
    TE, _GB_OLD, "                max_step=max_step,\n                max_mps_length=None,\n                config=self._backend_config)"))

# ---------------------------------------- semi-infinite quadrature in units of the cutoff (C12 L9 / L4)
_TAIL_NEW = """            integral += self.cutoff * _complex_integral(
                lambda x: integrand(self.cutoff * x),
                a=1.0,
                b=np.inf,
                epsrel=epsrel,
                limit=subdiv_limit)
"""
brk("C12", "tail of the frequency integral handed to quad with the dimensional lower limit again", "L9", _sub(
    BC, _TAIL_NEW, """            integral += _complex_integral(integrand,
                                          a=self.cutoff,
                                          b=np.inf,
                                          epsrel=epsrel,
                                          limit=subdiv_limit)
""", count=2))
brk("C12", "substitution w = cutoff * x without the factor cutoff", "L4", _sub(
    BC, _TAIL_NEW, """            integral += _complex_integral(
                lambda x: integrand(self.cutoff * x),
                a=1.0,
                b=np.inf,
                epsrel=epsrel,
                limit=subdiv_limit)
""", count=2))
ok("C12", "tail integral written with the factor on the right and positional limits", _sub(
    BC, _TAIL_NEW, """            integral += _complex_integral(
                lambda x: integrand(self.cutoff * x), 1.0, np.inf,
                epsrel=epsrel, limit=subdiv_limit) * self.cutoff
""", count=2))
