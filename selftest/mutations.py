"""Registry of checker self-test variants (see harness.py).

break  : one rule instance broken; the tree still compiles and (by
         construction or by a kept demonstration) passes OQuPy's own tests;
         the check must exit 1 naming `expect_rule`.
benign : behaviour-preserving rewrite; the check must stay at exit 0.

Variants are textual rewrites of the *current* tree; when the anchor text is
gone (the code was refactored) the variant reports `inapplicable` instead of
failing, and the harness prints how many were applicable.
"""
from __future__ import annotations

import os
import re
from typing import Any, Callable, Dict, List

_REG: Dict[str, List[Dict[str, Any]]] = {}


def _sub(path: str, old: str, new: str, count: int = 1, regex: bool = False):
    def apply(scratch: str):
        full = os.path.join(scratch, path)
        with open(full) as fh:
            s = fh.read()
        if regex:
            s2, n = re.subn(old, new, s, count=count, flags=re.S)
            if n == 0:
                return []
        else:
            if old not in s:
                return []
            s2 = s.replace(old, new, count)
        with open(full, "w") as fh:
            fh.write(s2)
        return [path]
    return apply


def _multi(*subs):
    def apply(scratch: str):
        files = []
        for s in subs:
            r = s(scratch)
            if not r:
                return []
            files += r
        return files
    return apply


def brk(pid, name, rule, apply, text=None):
    _REG.setdefault(pid, []).append(
        {"name": name, "kind": "break", "expect_rule": rule, "apply": apply,
         "expect_text": text})


def ok(pid, name, apply):
    _REG.setdefault(pid, []).append({"name": name, "kind": "benign", "apply": apply})


def variants(pid: str) -> List[Dict[str, Any]]:
    return list(_REG.get(pid, []))


SD = "oqupy/system_dynamics.py"
GR = "oqupy/gradient.py"
UT = "oqupy/util.py"
PT = "oqupy/process_tensor.py"
TE = "oqupy/tempo.py"
PTT = "oqupy/pt_tempo.py"
CT = "oqupy/control.py"
TB = "oqupy/backends/tempo_backend.py"
PTB = "oqupy/backends/pt_tempo_backend.py"
TEBD = "oqupy/pt_tebd.py"
TEBDB = "oqupy/backends/pt_tebd_backend.py"
BC = "oqupy/bath_correlations.py"
BA = "oqupy/bath.py"
SY = "oqupy/system.py"
MM = "oqupy/mps_mpo.py"
DY = "oqupy/dynamics.py"
BD = "oqupy/bath_dynamics.py"

# ------------------------------------------------------------------ C19
brk("C19", "compute_dynamics: with -> enter()/exit() without finally", "P1", _sub(
    SD, '    with get_progress(progress_type)(num_steps, title) as prog_bar:\n        for step in range(num_steps+1):\n            # -- apply pre',
    '    prog_bar = get_progress(progress_type)(num_steps, title)\n    prog_bar.enter()\n    if True:\n        for step in range(num_steps+1):\n            # -- apply pre'))
brk("C19", "_chain_rule: progress object entered, exit only on the normal path", "P1", _sub(
    GR, '    with get_progress(progress_type)(num_steps, title) as prog_bar:\n        for i in range(0,num_steps):',
    '    prog_bar = get_progress(progress_type)(num_steps, title)\n    prog_bar.enter()\n    if True:\n        for i in range(0,num_steps):'))
brk("C19", "Tempo.compute: manual enter without exit on exception", "P1", _sub(
    TE, '        with progress(num_step, title) as prog_bar:\n            for i in range(num_step):\n                prog_bar.update(i)\n                step, state = self._backend_instance.compute_step()',
    '        prog_bar = progress(num_step, title)\n        prog_bar.enter()\n        if True:\n            for i in range(num_step):\n                prog_bar.update(i)\n                step, state = self._backend_instance.compute_step()'))
brk("C19", "ProgressBar.update re-arms without looking at the stop flag", "P3", _sub(
    UT, '            if self._stopped:\n                return\n', ''))
brk("C19", "ProgressBar.exit cancels outside the lock", "P3", _sub(
    UT, '        with self._lock:\n            self._stopped = True\n            if self._timer is not None:\n                self._timer.cancel()\n',
    '        self._stopped = True\n        if self._timer is not None:\n            self._timer.cancel()\n'))
brk("C19", "ProgressBar.exit forgets to set the stop flag", "P3", _sub(
    UT, '            self._stopped = True\n            if self._timer is not None:', '            if self._timer is not None:'))
brk("C19", "extra daemon thread started in a backend", "P2", _sub(
    TEBDB, 'import concurrent\n', 'import concurrent\nimport threading\n_T = threading.Thread(target=lambda: None)\n'))
brk("C19", "executor not context managed", "P2", _sub(
    TEBDB, '                with concurrent.futures.ThreadPoolExecutor() as executor:\n                    output_datas = executor.map(apply_nn_gate, input_datas)',
    '                executor = concurrent.futures.ThreadPoolExecutor()\n                if True:\n                    output_datas = executor.map(apply_nn_gate, input_datas)'))
brk("C19", "BaseProgress.__exit__ skips exit() when an exception is in flight", "P4", _sub(
    UT, '        """Contextmanager exit. """\n        self.exit()', '        """Contextmanager exit. """\n        if exception_type is None:\n            self.exit()'))
brk("C19", "ProgressBar.exit prints before cancelling", "P4", _sub(
    UT, '        """Context exit. """\n        with self._lock:\n            self._stopped = True',
    '        """Context exit. """\n        self._print_status()\n        with self._lock:\n            self._stopped = True'))
ok("C19", "compute_dynamics: with -> try/finally", _sub(
    SD, '    with get_progress(progress_type)(num_steps, title) as prog_bar:\n        for step in range(num_steps+1):\n            # -- apply pre',
    '    prog_bar = get_progress(progress_type)(num_steps, title)\n    prog_bar.enter()\n    try:\n        for step in range(num_steps+1):\n            # -- apply pre')
    if False else _multi(
        _sub(SD, '    with get_progress(progress_type)(num_steps, title) as prog_bar:\n        for step in range(num_steps+1):\n            # -- apply pre',
             '    prog_bar = get_progress(progress_type)(num_steps, title)\n    prog_bar.enter()\n    try:\n        for step in range(num_steps+1):\n            # -- apply pre'),
        _sub(SD, '        prog_bar.update(num_steps)\n\n    # -- create dynamics object --\n    if record_all:\n        times = start_time + np.arange(len(states))*dt',
             '        prog_bar.update(num_steps)\n    finally:\n        prog_bar.exit()\n\n    # -- create dynamics object --\n    if record_all:\n        times = start_time + np.arange(len(states))*dt')))
ok("C19", "rename prog_bar in _chain_rule", _sub(GR, 'prog_bar', 'pbar', count=1000))

# ------------------------------------------------------------------ C17
brk("C17", "close(): identity test on the numpy flag", "W2", _sub(
    PT, 'if self._write and self._f.attrs["writing"]:', 'if self._write and self._f.attrs["writing"] is True:'))
brk("C17", "close(): reset also attempted in read mode", "W2", _sub(
    PT, 'if self._write and self._f.attrs["writing"]:', 'if self._f.attrs["writing"]:'))
brk("C17", "close(): file closed before the flag is reset", "W2", _sub(
    PT, '            if self._write and self._f.attrs["writing"]:\n                self._f.attrs["writing"] = False\n            self._f.close()',
    '            self._f.close()\n            if self._write and self._f.attrs["writing"]:\n                self._f.attrs["writing"] = False'))
brk("C17", "_read_file: identity test on the numpy flag", "W3", _sub(
    PT, 'if self._f.attrs["writing"]:\n            warnings.warn(', 'if self._f.attrs["writing"] is True:\n            warnings.warn('))
brk("C17", "_read_file: warning dropped", "W3", _sub(
    PT, 'if self._f.attrs["writing"]:\n            warnings.warn(', 'if False:\n            warnings.warn('))
brk("C17", "_create_file: flag set after the datasets exist", "W1", _multi(
    _sub(PT, '        self._f.attrs["writing"] = True\n', ''),
    _sub(PT, '        self.set_initial_tensor(initial_tensor=None)\n\n    def _read_file',
         '        self.set_initial_tensor(initial_tensor=None)\n        self._f.attrs["writing"] = True\n\n    def _read_file')))
brk("C17", "_create_file: always truncating open", "W4", _sub(
    PT, 'self._f = h5py.File(filename, "x")', 'self._f = h5py.File(filename, "w")'))
brk("C17", "_create_file: append mode instead of exclusive create", "W4", _sub(
    PT, 'self._f = h5py.File(filename, "x")', 'self._f = h5py.File(filename, "a")'))
brk("C17", "read mode marked writable", "W4", _sub(
    PT, '        if mode == "read":\n            self._write = False', '        if mode == "read":\n            self._write = True'))
brk("C17", "user-named file always removable", "W5", _sub(
    PT, 'self._removeable = self._overwrite', 'self._removeable = True'))
brk("C17", "remove() ignores the guard", "W5", _sub(
    PT, '        if self._removeable:\n            os.remove(self._filename)', '        if True:\n            os.remove(self._filename)'))
brk("C17", "flag cleared early in compute_caps", "W6", _sub(
    PT, '        cap = np.array([1.0], dtype=NpDtype)\n        self.set_cap_tensor(length, cap)',
    '        cap = np.array([1.0], dtype=NpDtype)\n        self._f.attrs["writing"] = False\n        self.set_cap_tensor(length, cap)'))
ok("C17", "close(): equality test instead of truthiness", _sub(
    PT, 'if self._write and self._f.attrs["writing"]:', 'if self._write and self._f.attrs["writing"] == True:'))
ok("C17", "_read_file: flag read into a local first", _sub(
    PT, '        if self._f.attrs["writing"]:\n            warnings.warn(',
    '        still_writing = self._f.attrs["writing"]\n        if bool(still_writing):\n            warnings.warn('))

# ------------------------------------------------------------------ C18
brk("C18", "ChainControl composes existing @ new", "O1", _sub(
    CT, 'ssc["contr"] @ controls[ssc["site"]]', 'controls[ssc["site"]] @ ssc["contr"]'))
brk("C18", "Control.add_single (step) composes existing @ new", "O1", _sub(
    CT, 'control_operation @ self._step_controls[pre_post][time]', 'self._step_controls[pre_post][time] @ control_operation'))
brk("C18", "Control.add_single (float time) composes existing @ new", "O1", _sub(
    CT, 'control_operation @ self._time_controls[pre_post][time]', 'self._time_controls[pre_post][time] @ control_operation'))
brk("C18", "get_controls folds post step control on the right", "O1", _sub(
    CT, "post_control = self._step_controls['post'][step] @ post_control", "post_control = post_control @ self._step_controls['post'][step]"))
brk("C18", "ChainControl iterates newest first", "O1", _sub(
    CT, 'for ssc in ss_controls:', 'for ssc in reversed(ss_controls):'))
brk("C18", "compute_dynamics applies post control before recording", "O2", _multi(
    _sub(SD, '''            # -- apply post measurement control --
            if post_measurement_control is not None:
                current_node, current_edges = _apply_system_superoperator(
                    current_node, current_edges, post_measurement_control)

            # -- propagate one time step --
            first_half_prop, second_half_prop = propagators(step)
            pt_mpos = _get_pt_mpos(process_tensors, step)
''', '''            # -- propagate one time step --
            first_half_prop, second_half_prop = propagators(step)
            pt_mpos = _get_pt_mpos(process_tensors, step)
'''),
    _sub(SD, '''            if step == num_steps:
                break

            # -- extract current state -- update field --
            if record_all:
                caps = _get_caps(process_tensors, step)''', '''            if step == num_steps:
                break

            if post_measurement_control is not None:
                current_node, current_edges = _apply_system_superoperator(
                    current_node, current_edges, post_measurement_control)

            # -- extract current state -- update field --
            if record_all:
                caps = _get_caps(process_tensors, step)''')))
brk("C18", "compute_dynamics swaps pre and post", "O2", _sub(
    SD, '            pre_measurement_control, post_measurement_control = controls(step)\n\n            if pre_measurement_control is not None:\n                current_node, current_edges = _apply_system_superoperator(\n                    current_node, current_edges, pre_measurement_control)\n\n            if step == num_steps:\n                break\n\n            # -- extract current state -- update field --\n            if record_all:\n                caps = _get_caps(process_tensors, step)\n                state_tensor',
    '            post_measurement_control, pre_measurement_control = controls(step)\n\n            if pre_measurement_control is not None:\n                current_node, current_edges = _apply_system_superoperator(\n                    current_node, current_edges, pre_measurement_control)\n\n            if step == num_steps:\n                break\n\n            # -- extract current state -- update field --\n            if record_all:\n                caps = _get_caps(process_tensors, step)\n                state_tensor'))
brk("C18", "PtTebd.compute_step applies post controls after incrementing the step", "O2", _sub(
    TEBD, '        self._apply_controls(step=self.step, post=True)\n        self._step += 1\n', '        self._step += 1\n        self._apply_controls(step=self.step, post=True)\n'))
brk("C18", "PtTebd.compute_step records before pre controls", "O2", _sub(
    TEBD, '        self._apply_controls(step=self.step, post=False)\n        self._append_results()\n\n', '        self._append_results()\n        self._apply_controls(step=self.step, post=False)\n\n', count=1)
    if False else _sub(TEBD, '            self._t_mps.apply_nn_gate_layer(gate_layer)\n        self._apply_controls(step=self.step, post=False)\n        self._append_results()',
                       '            self._t_mps.apply_nn_gate_layer(gate_layer)\n        self._append_results()\n        self._apply_controls(step=self.step, post=False)'))
brk("C18", "float control times rounded without start_time", "O3", _sub(
    CT, "a = np.round((self._control_times['pre'] - start_time) / dt)", "a = np.round(self._control_times['pre'] / dt)"))
ok("C18", "ChainControl: hoist operands into temporaries", _sub(
    CT, '                    controls[ssc["site"]] = \\\n                        ssc["contr"] @ controls[ssc["site"]]',
    '                    controls[ssc["site"]] = np.matmul(\n                        ssc["contr"], controls[ssc["site"]])'))

# ------------------------------------------------------------------ C13
brk("C13", "Tempo._get_num_step truncates again", "G1", _sub(
    TE, 'end_step = int(np.round(\n            (end_time - self._start_time)/self._parameters.dt, decimals=9))',
    'end_step = int((end_time - self._start_time)/self._parameters.dt)'))
brk("C13", "Tempo._get_num_step rounds to nearest", "G1", _sub(
    TE, 'end_step = int(np.round(\n            (end_time - self._start_time)/self._parameters.dt, decimals=9))',
    'end_step = int(np.round((end_time - self._start_time)/self._parameters.dt))'))
brk("C13", "PtTempo step count uses floor division", "G1", _sub(
    PTT, 'tmp_num_steps = int(np.round(\n            (end_time - self._start_time)/self._parameters.dt, decimals=9))',
    'tmp_num_steps = int((end_time - self._start_time)//self._parameters.dt)'))
brk("C13", "_parse_times float index truncated", "G1", _sub(
    SD, 'index = int(np.round((times-start_time)/dt))', 'index = int((times-start_time)/dt)'))
brk("C13", "bath_dynamics correlation dimension truncated", "G1", _sub(
    BD, 'corr_mat_dim = int(np.round(final_time/dt))', 'corr_mat_dim = int(final_time/dt)'))
brk("C13", "final-only label from list length again", "G2", _sub(
    SD, '        times = [start_time + num_steps*dt]\n\n    return Dynamics(', '        times = [start_time + len(states)*dt]\n\n    return Dynamics('))
brk("C13", "gradient final-only label constant", "G2", _sub(
    GR, 'times = [start_time + num_steps*dt]', 'times = [start_time + dt]'))
brk("C13", "Tempo._time drops start_time", "G3", _sub(
    TE, '        return self._start_time + float(step)*self._parameters.dt\n\n    def _get_num_step(self,\n            start_step: int,\n            end_time: float) -> Tuple[int, int]:\n        """Return the number of steps required from start_step to reach\n        end_time"""\n        end_step = int(np.round(\n            (end_time - self._start_time)/self._parameters.dt, decimals=9))\n        num_step = max(0, end_step - start_step)\n        return num_step\n\n    @property',
    '        return float(step)*self._parameters.dt\n\n    def _get_num_step(self,\n            start_step: int,\n            end_time: float) -> Tuple[int, int]:\n        """Return the number of steps required from start_step to reach\n        end_time"""\n        end_step = int(np.round(\n            (end_time - self._start_time)/self._parameters.dt, decimals=9))\n        num_step = max(0, end_step - start_step)\n        return num_step\n\n    @property'))
brk("C13", "record_all axis starts one step late", "G3", _sub(
    SD, 'times = start_time + np.arange(len(states))*dt', 'times = start_time + (np.arange(len(states))+1)*dt'))
brk("C13", "PtTebd.time ignores start_step", "G3", _sub(
    TEBD, 'return self._start_time + self._parameters.dt*(step - self._start_step)', 'return self._start_time + self._parameters.dt*step'))
brk("C13", "Dynamics.add appends states instead of inserting at the index", "G4", _sub(
    DY, '        self._states.insert(index, tmp_state)', '        self._states.append(tmp_state)'))
brk("C13", "MeanFieldDynamics.add recomputes the field index after inserting the time", "G4", _sub(
    DY, '        tmp_field = _parse_field(field)\n        self._fields.insert(index, tmp_field)',
    '        tmp_field = _parse_field(field)\n        index = _find_list_index(self._times, tmp_time)\n        self._fields.insert(index, tmp_field)'))
ok("C13", "tolerant floor written with an additive epsilon", _sub(
    TE, 'end_step = int(np.round(\n            (end_time - self._start_time)/self._parameters.dt, decimals=9))',
    'quot = (end_time - self._start_time)/self._parameters.dt\n        end_step = int(np.floor(quot + 1.0e-9))'))
ok("C13", "final-only label via a temporary", _sub(
    SD, '        times = [start_time + num_steps*dt]\n\n    return Dynamics(', '        final_time = start_time + dt*num_steps\n        times = [final_time]\n\n    return Dynamics('))
